#!/usr/bin/env python3
"""third-wave prompt: lists the four earlier changes (from seeded/SUMMARY.tsv) to avoid"""
import sys, subprocess
pid = sys.argv[1]
summ = dict(l.rstrip("\n").split("\t", 1) for l in open("/verif/seeded/SUMMARY.tsv") if "\t" in l)
prev = [v for k, v in sorted(summ.items()) if k.startswith(pid + "-")]
base = subprocess.run(["/verif/tools/agent_prompt.py", pid], capture_output=True, text=True).stdout
base = base.replace("/tmp/wt/%s" % pid, "/tmp/wt3/%s" % pid).replace("/tmp/out-%s" % pid, "/tmp/out3-%s" % pid)
extra = "\n\nADDITIONAL CONSTRAINT FOR THIS ROUND: these changes already exist for this property and must NOT be repeated (neither the same function nor the same mechanism):\n" + \
    "".join("  - %s\n" % p for p in prev) + \
    "Find a genuinely DIFFERENT place and kind of slip. Good hunting grounds that earlier rounds did not use: code paths only reached with unusual-but-legal option combinations; arithmetic that is only wrong at equality / boundary values; state shared between loop iterations (a variable left over from a previous sample, locus, chain or step); argument order or keyword mix-ups between two layers; a default value silently replacing a passed value; dtype or shape changes that only matter for larger or mixed-ploidy inputs; ordering assumptions (sorted vs unsorted input, file order vs argument order). The change must still be a plausible developer slip, keep the whole existing test-suite passing, and your demo must show the breakage deterministically.\n"
print(base.replace("\nPRACTICALITIES (important):", extra + "\nPRACTICALITIES (important):"))
