#!/usr/bin/env python3
"""Run the checks against every seeded change in /verif/seeded (each in a scratch worktree, never in /repo)
and record which checks report a violation.  usage: seed_matrix.py [seed-dir-name ...]"""
import json, os, re, subprocess, sys, tempfile, pathlib
V = pathlib.Path("/verif")
EXTRA = {  # besides the property's own check
    "C03-m2": ["C11"], "C09-m1": ["C18"], "C09-m2": ["C01"], "C02-m2": ["C09", "C08"], "C05-m1": ["C01"], "C05-m2": ["C01"],
    "C02-r2m2": ["C04"], "C03-r2m1": ["C07"], "C03-r2m2": ["C11"], "C09-r2m1": ["C02"], "C09-r2m2": ["C01"], "C13-r2m1": ["C14"], "C04-r2m2": ["C11"],
    "C05-r2m1": ["C16"], "C05-r2m2": ["C03"], "C12-r2m1": ["C06"], "C17-r2m2": ["C18"], "C16-r2m1": ["C07"], "C07-r2m1": ["C16"],
    "C10-m1": ["C08"], "C06-r3m2": ["C08"], "C12-r3m1": ["C08"], "C08-m1": ["C10"], "C12-m2": ["C07"], "C15-m1": ["C01"], "C16-m2": ["C12"], "C04-m2": ["C09"],
}
names = sys.argv[1:] or sorted(p.name for p in (V / "seeded").iterdir() if (p / "patch.diff").exists())
rows = []
for name in names:
    sd = V / "seeded" / name
    meta = json.loads((sd / "meta.json").read_text())
    own = name.split("-")[0]
    checks = [own] + EXTRA.get(name, [])
    if os.environ.get("OWN_ONLY") == "1":
        checks = [own]
    wt = tempfile.mkdtemp(prefix="seedwt.", dir="/tmp"); os.rmdir(wt)
    subprocess.run(["git", "-C", "/repo", "worktree", "add", "--detach", wt, "HEAD", "-q"], check=True)
    patch = sd / "patch.diff"
    rebased = sorted(sd.glob("patch_rebased_on_*.diff"))
    if rebased:
        patch = rebased[-1]  # the same change, re-expressed on top of a later fix: commit that touched the same lines
    ok = subprocess.run(["git", "-C", wt, "apply", str(patch)]).returncode == 0
    meta["patch_used"] = patch.name
    det = {}
    if ok:
        for c in checks:
            p = subprocess.run([str(V / "check"), c, "--tier", os.environ.get("TIER", "quick")], env=dict(os.environ, VERIF_REPO=wt), capture_output=True, text=True)
            viol = [l for l in p.stdout.splitlines() if l.startswith("VIOLATION")]
            first = next((l.strip() for l in p.stdout.splitlines() if l.startswith("  ") and "::" in l), "")
            det[c] = {"exit": p.returncode, "violations": len(viol), "first": first[:300]}
    subprocess.run(["git", "-C", "/repo", "worktree", "remove", "--force", wt])
    meta["patch_applies_to_head"] = ok
    meta["checks_run"] = det
    meta["detected_by"] = sorted(c for c, d in det.items() if d["exit"] == 1 and d["violations"] > 0)
    (sd / "meta.json").write_text(json.dumps(meta, indent=1) + "\n")
    rows.append((name, meta["confirmed"], meta["detected_by"], {c: d["exit"] for c, d in det.items()}))
    print(name, "confirmed=%s" % meta["confirmed"], "detected_by=%s" % meta["detected_by"], {c: d["exit"] for c, d in det.items()}, flush=True)
