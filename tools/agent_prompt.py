#!/usr/bin/env python3
import json, sys
pid = sys.argv[1]
for l in open('/verif/properties.jsonl'):
    p = json.loads(l)
    if p['id'] == pid:
        break
wt = "/tmp/wt/%s" % pid
print(f"""You are helping to evaluate a verification harness by seeding realistic bugs. You work ONLY inside the git worktree {wt} (a checkout of the Python project MCHap: numba-jitted MCMC / exact Bayesian samplers for polyploid micro-haplotype assembly and genotype calling). Do not read or touch /repo, /verif or any other directory outside {wt} and /tmp/out-{pid} (your output directory).

PROPERTY (this is all you are told about what must hold):
Title: {p['title']}
Statement: {p['statement']}
Quantified over: {p['quantifier']['text']}
Code it is anchored in: {', '.join(p['anchors']['files'])}

TASK: produce TWO different, realistic source changes to the project (files under {wt}/mchap, not tests) each of which BREAKS this property while the project still imports/compiles and the EXISTING test suite still passes exactly as before. Each change should look like a plausible slip a developer could make (wrong ratio term, off-by-one, wrong mask/index, stale cache key, wrong operand order, premature write-back, dtype, cardinality, a condition that is wrong only for a corner shape ...), NOT a blatant break that ordinary use would expose immediately. Prefer changes that need something specific to manifest: a particular state (e.g. duplicated haplotypes, unbalanced shapes), a multi-step sequence of operations, a particular interleaving or fault position, an unusual-but-legal input, or two cooperating sites that each look fine alone. The two changes must use different mechanisms / touch different functions.

For each change k in (1, 2) write into /tmp/out-{pid}/m<k>/:
  - patch.diff : `git diff` of the change against the worktree HEAD (apply-able with `git apply` at the repo root; only the source change, no test edits)
  - demo.py (or test_demo.py) : a small self-contained program that exercises the real code and FAILS (non-zero exit / assertion) with the change applied and PASSES on the unmodified worktree. It must be deterministic.
  - notes.md : which clause of the property it breaks, what exactly is needed for it to manifest, and the commands you ran with their results (demo with/without the change; test-suite result with the change).
Leave the worktree itself clean at the end (git checkout -- . ; no stray files), the patches live only in /tmp/out-{pid}.

PRACTICALITIES (important):
  - Python is /venv/bin/python. The package `mchap` is installed in editable mode pointing at ANOTHER directory, so ALWAYS run with the worktree as cwd AND `PYTHONPATH={wt}` so that `import mchap` resolves to {wt}/mchap (verify once with `python -c "import mchap; print(mchap.__file__)"`).
  - numba caches compiled functions on disk keyed only by the defining file: after editing one file, functions in OTHER files that call into it may keep using a stale compiled copy. So ALWAYS set `NUMBA_CACHE_DIR` to a fresh empty directory (e.g. `NUMBA_CACHE_DIR=$(mktemp -d)`) whenever the source has changed since the cache was written — for demos and for the test suite — and delete those directories when done.
  - Test suite: `cd {wt} && PYTHONPATH={wt} NUMBA_CACHE_DIR=<fresh dir> /venv/bin/python -m pytest -q -p no:cacheprovider --timeout=900 -n 4 mchap/tests` (takes several minutes). On the UNMODIFIED tree exactly these 4 tests fail and they may keep failing: test_docs.py::test_help_text[assemble], [call], [call-exact] and test_jitutils.py::test_comb[0-0]. Everything else passes and must still pass with your change. You may first run only the most relevant test files (`-k` / file paths) while iterating, but run the whole suite once per final change.
  - No network. Do not install anything. Do not commit. Do not modify tests.
  - If a candidate change makes an existing test fail, that candidate is not acceptable: find another.

Report back (briefly): for each change, the files/functions touched, a one-paragraph description of why it breaks the property and what is needed to trigger it, and confirmation of demo fail/pass and test-suite status.""")
