#!/usr/bin/env python3
"""print the markdown table of seeded changes (DESIGN.md section 11) from seeded/*/meta.json + seeded/SUMMARY.tsv"""
import json, pathlib
V = pathlib.Path("/verif/seeded")
summ = dict(l.rstrip("\n").split("\t", 1) for l in (V / "SUMMARY.tsv").read_text().splitlines() if "\t" in l)
print("| seed | change (needs ... to manifest) | confirmed (demo clean/patched, suite) | detected by |")
print("|------|-------------------------------|----------------------------------------|-------------|")
for d in sorted(p for p in V.iterdir() if (p / "meta.json").exists()):
    m = json.loads((d / "meta.json").read_text())
    conf = "yes (%s/%s, %s)" % (m.get("demo_exit_clean"), m.get("demo_exit_patched"), "pass" if m.get("suite_with_patch_ok") else "FAIL") if m.get("confirmed") else "NO"
    det = ", ".join(m.get("detected_by", [])) or "—"
    print("| %s | %s | %s | %s |" % (d.name, summ.get(d.name, ""), conf, det))
