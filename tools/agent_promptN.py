#!/usr/bin/env python3
"""round-N prompt (N >= 3): usage agent_promptN.py <Cxx> <N> — lists every earlier change (seeded/SUMMARY.tsv) to avoid"""
import sys, subprocess
pid, rnd = sys.argv[1], sys.argv[2]
txt = subprocess.run(["/verif/tools/agent_prompt3.py", pid], capture_output=True, text=True).stdout
print(txt.replace("/tmp/wt3/", "/tmp/wt%s/" % rnd).replace("/tmp/out3-", "/tmp/out%s-" % rnd))
