#!/bin/bash
# usage: sedpatch.sh <repo-relative file> <sed expr> > patch.diff   (patch against /repo HEAD working tree)
f="$1"; shift
tmp=$(mktemp)
sed -E "$@" "/repo/$f" > "$tmp"
diff -u "/repo/$f" "$tmp" | sed "s#^--- .*#--- a/$f#; s#^+++ .*#+++ b/$f#"
rm -f "$tmp"
