#!/usr/bin/env python3
"""print a python file without docstrings / blank lines (reading aid)"""
import ast, sys
src = open(sys.argv[1]).read()
tree = ast.parse(src)
skip = set()
for node in ast.walk(tree):
    if isinstance(node, (ast.FunctionDef, ast.ClassDef, ast.Module, ast.AsyncFunctionDef)):
        b = node.body
        if b and isinstance(b[0], ast.Expr) and isinstance(getattr(b[0], "value", None), ast.Constant) and isinstance(b[0].value.value, str):
            skip.update(range(b[0].lineno, b[0].end_lineno + 1))
    if isinstance(node, ast.Expr) and isinstance(getattr(node, "value", None), ast.Constant) and isinstance(node.value.value, str):
        skip.update(range(node.lineno, node.end_lineno + 1))
for i, l in enumerate(src.splitlines(), 1):
    if i in skip or not l.strip():
        continue
    print("%4d %s" % (i, l))
