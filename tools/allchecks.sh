#!/bin/bash
# usage: allchecks.sh [tier] [seed]  — run every check once, print a one-line verdict each
TIER=${1:-quick}; SEED=${2:-0}
for i in $(seq -w 1 20); do
  c=C$i; t0=$(date +%s)
  out=$(VERIF_SEED=$SEED /verif/check $c --tier $TIER 2>/dev/null); rc=$?
  echo "$c rc=$rc $(( $(date +%s) - t0 ))s $(echo "$out" | grep -cE '^VIOLATION') violations $(echo "$out" | grep -cE '^KNOWN-FINDING') known $(echo "$out" | grep -E '^(CAP|HARNESS)' | head -2 | tr '\n' ' ')"
done
