#!/bin/bash
# usage: seed_pipeline.sh <Cxx> <round>  — confirm both agent-produced changes of a property, then run the property's own check against each
# (and, if that is silent, the related checks); one summary line per (seed, check) in /tmp/pipeline_<Cxx>_r<round>.log
ID=$1; R=$2
declare -A REL=( [C01]="C04 C09 C15" [C02]="C09 C11 C05" [C03]="C11 C07" [C04]="C09 C02 C10 C11" [C05]="C02 C01" [C06]="C10 C07" [C07]="C16 C11 C18 C06" [C08]="C10 C11 C13 C15" [C09]="C04 C18 C02"
 [C10]="C13 C06" [C11]="C07 C13" [C12]="C16 C07 C06" [C13]="C10 C07" [C14]="C07" [C15]="C11 C01" [C16]="C07 C12" [C17]="C18" [C18]="C04 C09 C17" [C19]="" [C20]="C07" )
LOG=/tmp/pipeline_${ID}_r$R.log; : > $LOG
for mk in m1 m2; do
  /verif/tools/confirm_seed.sh $ID $mk $R >> $LOG 2>&1
  S=$ID-r$R$mk
  [ -f /verif/seeded/$S/patch.diff ] || { echo "$S no patch" >> $LOG; continue; }
  found=0
  for c in $ID ${REL[$ID]}; do
    out=$(VMC_PROCS=${VMC_PROCS:-10} /verif/tools/mutcheck.sh /verif/seeded/$S/patch.diff $c 2>&1 | grep -v "replay of\|KNOWN\|^CAP" | cut -c1-300)
    n=$(echo "$out" | grep -c "^VIOLATION")
    echo "$S $c violations=$n :: $(echo "$out" | grep -m1 '^  [a-z]')" >> $LOG
    if [ "$n" -gt 0 ]; then found=1; [ "$c" = "$ID" ] && break; fi
    [ $found = 1 ] && break
  done
  [ $found = 0 ] && echo "$S MISSED by all of: $ID ${REL[$ID]}" >> $LOG
done
echo "done $ID" >> $LOG
