#!/bin/bash
# usage: confirm_seed.sh <Cxx> <m1|m2>   — confirm an agent-produced seeded change in its own scratch worktree /tmp/wt/<Cxx>
# (demo passes clean, fails with the patch, pinned suite still passes), then store it as /verif/seeded/<Cxx>-<mk>/
set -u
ID=$1; MK=$2; ROUND=${3:-1}
BASE=fd6dda3
if [ "$ROUND" -ge 4 ]; then WT=/tmp/wt$ROUND/$ID; OUT=/tmp/out$ROUND-$ID/$MK; DST=/verif/seeded/$ID-r$ROUND$MK; BASE=367d150; elif [ "$ROUND" = "3" ]; then WT=/tmp/wt3/$ID; OUT=/tmp/out3-$ID/$MK; DST=/verif/seeded/$ID-r3$MK; BASE=367d150; elif [ "$ROUND" = "2" ]; then WT=/tmp/wt2/$ID; OUT=/tmp/out2-$ID/$MK; DST=/verif/seeded/$ID-r2$MK; else WT=/tmp/wt/$ID; OUT=/tmp/out-$ID/$MK; DST=/verif/seeded/$ID-$MK; fi
[ -d "$WT" ] || git -C /repo worktree add --detach "$WT" $BASE -q
git -C "$WT" checkout -q -- . ; git -C "$WT" clean -fdq
DEMO=$(ls $OUT/demo.py $OUT/test_demo.py 2>/dev/null | head -1)
run_demo(){ nb=$(mktemp -d); if [[ "$DEMO" == *test_demo.py ]]; then (cd $WT && PYTHONPATH=$WT NUMBA_CACHE_DIR=$nb timeout 1500 /venv/bin/python -m pytest -q -p no:cacheprovider "$DEMO" >$1 2>&1); else (cd $WT && PYTHONPATH=$WT NUMBA_CACHE_DIR=$nb timeout 1500 /venv/bin/python "$DEMO" >$1 2>&1); fi; rc=$?; rm -rf $nb; return $rc; }
mkdir -p $DST
run_demo $DST/demo_clean.log; rc_clean=$?
git -C "$WT" apply $OUT/patch.diff || { echo "$ID $MK patch does not apply"; exit 1; }
run_demo $DST/demo_patched.log; rc_pat=$?
BASELINE_N=6 /verif/tools/baseline.py $WT > $DST/suite_patched.log 2>&1; rc_suite=$?
git -C "$WT" checkout -q -- . ; git -C "$WT" clean -fdq
cp $OUT/patch.diff $DST/patch.diff; cp $DEMO $DST/; cp $OUT/notes.md $DST/notes.md 2>/dev/null
tail -c 2000 $DST/demo_clean.log > $DST/demo_clean.tail; tail -c 2000 $DST/demo_patched.log > $DST/demo_patched.tail; rm -f $DST/demo_clean.log $DST/demo_patched.log
python3 - <<PY
import json
json.dump({"property":"$ID","variant":"$MK","round":$ROUND,"base_commit":"$BASE","source":"independent sub-agent given only the property text and a scratch worktree",
 "demo":"$(basename $DEMO)","demo_exit_clean":$rc_clean,"demo_exit_patched":$rc_pat,"suite_with_patch_ok":$rc_suite==0,
 "suite_summary":open("$DST/suite_patched.log").read().splitlines()[0] if open("$DST/suite_patched.log").read().strip() else "",
 "confirmed": ($rc_clean==0 and $rc_pat!=0 and $rc_suite==0),
 "ran":["demo on clean worktree","demo with patch applied","tools/baseline.py (pinned suite, private numba cache) with patch applied"],
 "needs_to_manifest":"see notes.md","detected_by":[]}, open("$DST/meta.json","w"), indent=1)
PY
echo "$ID $MK clean=$rc_clean patched=$rc_pat suite=$rc_suite"
