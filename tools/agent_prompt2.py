#!/usr/bin/env python3
"""second-wave prompt: same task, but different mechanisms than the first wave"""
import json, sys, subprocess
pid = sys.argv[1]
PREV = {
 "C01": ["base_step: proposal ratio multiplied by temp", "_denovo_assembler: chain_swap_step called without inbreeding"],
 "C02": ["compound_step: mh_options called without frequencies", "llk cache hoisted onto the CallingMCMC object (stale across fits)"],
 "C03": ["call_exact GP/GL branch drops inbreeding", "index_as_genotype_alleles output buffer int8"],
 "C04": ["log_likelihood treats probability 0 like a gap (val > 0)", "pedigree cached likelihood pairs filtered reads with unfiltered counts"],
 "C05": ["_denovo_assembler log_unique_haplotypes = n_base*log(max alleles)", "chain_swap_step prior_j without inbreeding"],
 "C06": ["encode_sample_reads passes skip_duplicates as skip_qcfail", "reference check accepts any listed allele"],
 "C07": ["require_AFP ignores INFO/AOPSUM", "INFO/AFP divided by AN instead of total ploidy"],
 "C08": ["random_seed 0 treated as unset (truthiness)", "job.get() replaced by job.wait() in the multi-core runner"],
 "C09": ["pair_allele_swap_step uses the first parent's read mask for the second", "llks[t-1] not written back after chain swap"],
 "C10": ["seed 0 treated as unset", "per-locus read cache keyed by BAM path only"],
 "C11": ["comb(): symmetry reduction before the table lookup (k > n)", "index_as_genotype_alleles int8 buffer"],
 "C12": ["as_allelic lookup tables cached by frozenset of alleles", "flat prior divides by number of unmasked alleles (0 for NOA record)"],
 "C13": ["ALT order by frequency instead of dosage", "masked reference label only dropped when there are no ALTs"],
 "C14": ["mode_genotype_support sums the first member's probability", "_posterior_frequencies first-occurrence flag overwritten"],
 "C15": ["sub-step table dtype = genotype dtype (int8)", "read_counts not passed to the homozygosity screen"],
 "C16": ["call.py mask[0] assignment overwrites the zero-prior test", "apply_allele_filter returns int array (fancy indexing of frequencies)"],
 "C17": ["clone (tau=0) override moved after the error terms in trio_log_pmf", "trio_valid lambda_q block tests constraint_p"],
 "C18": ["sample_children_matrix selfing guard index slip (child listed twice)", "generic_markov_blanket_log_probability reads gamete_error[i,0] for q"],
 "C19": ["duplicate / qcfail flag bits swapped", "ind_maf and ind_mad counted over individuals separately"],
 "C20": ["site ACP scaled by the last sample's ploidy", "'.' alleles leak into the site AC count"],
}
base = subprocess.run(["/verif/tools/agent_prompt.py", pid], capture_output=True, text=True).stdout
base = base.replace("/tmp/wt/%s" % pid, "/tmp/wt2/%s" % pid).replace("/tmp/out-%s" % pid, "/tmp/out2-%s" % pid)
extra = """

ADDITIONAL CONSTRAINT FOR THIS ROUND: two changes already exist for this property and must NOT be repeated (neither the same function nor the same mechanism):
  1. %s
  2. %s
Look for a DIFFERENT place and kind of slip: e.g. state carried between steps / chains / samples, boundary and equality cases, unusual-but-legal shapes (mixed ploidy, multi-allelic SNVs, a single read, zero reads, many alleles, pools, several read groups), an interaction between two options, a sequence of operations on one long-lived object, or a wiring mistake between two layers (class -> function, CLI option -> field). Prefer changes that are subtle in magnitude or only visible for a narrow set of inputs, as long as your demo shows them deterministically.
""" % tuple(PREV[pid])
print(base.replace("\nPRACTICALITIES (important):", extra + "\nPRACTICALITIES (important):"))
