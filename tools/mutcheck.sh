#!/bin/bash
# usage: mutcheck.sh <patch.diff | -c 'sed command'> <Cxx> [<Cxx>...]   (env TIER=quick|thorough, BASE=<commit>)
# Applies the patch in a scratch worktree of /repo (never in /repo itself), runs the checks against it, removes it.
set -u
PATCH="$1"; shift
WT=$(mktemp -d /tmp/mutwt.XXXXXX); rmdir "$WT"
git -C /repo worktree add --detach "$WT" "${BASE:-HEAD}" -q || exit 3
if [ "$PATCH" != "none" ]; then git -C "$WT" apply "$PATCH" || { echo "PATCH DOES NOT APPLY"; git -C /repo worktree remove --force "$WT"; exit 3; }; fi
rc=0
for c in "$@"; do
  VERIF_REPO="$WT" /verif/check "$c" --tier "${TIER:-quick}" 2>&1 | grep -v "^  \.\. " | grep -v "RuntimeWarning\|log_read_prob" | grep -E "^(C[0-9]+ tier|VIOLATION|KNOWN|HARNESS|CAP|  )" | cut -c1-400 | head -${LINES_MAX:-12}
done
git -C /repo worktree remove --force "$WT"
# drop the numba cache of the mutated tree
find /verif/.cache/numba -maxdepth 1 -mindepth 1 -type d -mmin -600 | while read d; do :; done
