#!/venv/bin/python
"""Run the pinned suite on a tree (default /repo) with a private numba cache and compare with
BASELINE.stable_pass.  usage: baseline.py [repo_dir] [-k expr]"""
import json, os, subprocess, sys, tempfile, shutil, xml.etree.ElementTree as ET
repo = sys.argv[1] if len(sys.argv) > 1 and not sys.argv[1].startswith("-") else "/repo"
extra = [a for a in sys.argv[1:] if a != repo]
tmp = tempfile.mkdtemp(prefix="baseline-")
env = dict(os.environ, NUMBA_CACHE_DIR=tmp + "/nb", PYTHONDONTWRITEBYTECODE="1", PYTHONPATH=repo)
junit = tmp + "/j.xml"
cmd = ["/venv/bin/python", "-m", "pytest", "-q", "-p", "no:cacheprovider", "--timeout=900",
       "--continue-on-collection-errors", "-n", os.environ.get("BASELINE_N", "8"), "--junitxml=" + junit] + extra
try:
    import xdist  # noqa
except Exception:
    cmd = [c for c in cmd if c not in ("-n", os.environ.get("BASELINE_N", "8"))]
p = subprocess.run(cmd, cwd=repo, env=env, capture_output=True, text=True)
base = set(json.load(open("/root/.vp/BASELINE.json"))["stable_pass"])
passed = set()
failed = set()
for tc in ET.parse(junit).getroot().iter("testcase"):
    name = tc.get("classname") + "::" + tc.get("name")
    bad = any(ch.tag in ("failure", "error") for ch in tc)
    skipped = any(ch.tag == "skipped" for ch in tc)
    (failed if bad else passed).add(name) if not skipped else None
missing = sorted(base - passed)
print("passed", len(passed), "failed", len(failed), "baseline", len(base), "baseline tests not passing:", len(missing))
for m in missing[:30]:
    print("  MISSING", m)
print("failed:", sorted(failed)[:10])
shutil.rmtree(tmp, ignore_errors=True)
sys.exit(1 if (missing and not extra) else 0)
