#!/bin/bash
# usage: coverage.sh <Cxx>... — line coverage of /repo/mchap by the quick tier of the given checks (pure-Python code and
# py_func bodies only: compiled numba code is invisible). A hole finder for the harness; it decides no property.
rm -rf /verif/.scratch/cov; mkdir -p /verif/.scratch/cov
for c in "$@"; do VMC_COVERAGE=1 /verif/check $c --tier ${TIER:-quick} 2>&1 | grep -E "^(C[0-9]+ tier|VIOLATION|HARNESS)"; done
cd /verif/.scratch/cov && /venv/bin/python -m coverage combine --rcfile /verif/tools/coveragerc -q . 2>/dev/null
/venv/bin/python -m coverage report --rcfile /verif/tools/coveragerc -m --skip-empty 2>/dev/null
