"""Command-line wiring: distinct legal values of one scalar option must give distinct program objects.

For each numeric option of a program the candidate values {0, the default, 1, and two more} are parsed through the
real `program.cli(argv)`; the resulting objects are described by their attributes.  If two different values give the
same object, one of them did not reach the program (typically a falsy 0 replaced by the default)."""
import numpy as np


def _canon(v):
    if isinstance(v, np.ndarray):
        return ("nd", _canon(v.tolist()))
    if isinstance(v, dict):
        return tuple(sorted((str(k), _canon(x)) for k, x in v.items()))
    if isinstance(v, (list, tuple)):
        return tuple(_canon(x) for x in v)
    if isinstance(v, (np.floating, float)):
        return float(v)
    if isinstance(v, (np.integer, int)) and not isinstance(v, bool):
        return int(v)
    if isinstance(v, (str, bool, type(None))):
        return v
    return repr(type(v))


def describe(obj):
    return tuple(sorted((k, _canon(v)) for k, v in vars(obj).items() if k != "cli_command"))


def scalar_options(arglist):
    """(flag, kind, default) of every option that takes one number (possibly typed str because a file is accepted too)"""
    from mchap.application.arguments import Parameter

    out = []
    for a in arglist:
        if not isinstance(a, Parameter):
            continue
        kw = a.kwargs
        if kw.get("nargs") not in (None, 1):
            continue
        d = kw.get("default")
        d = d[0] if isinstance(d, (list, tuple)) and d else d
        typ = kw.get("type")
        if typ in (int, float):
            out.append((a.cli, typ, d))
        elif typ is str and d is not None:
            try:
                float(d)
            except (TypeError, ValueError):
                continue
            out.append((a.cli, float if "." in str(d) else int, d))
    return out


def candidates(kind, default):
    if kind is int:
        vals = [0, default, 1, 2, 7]
    else:
        vals = [0.0, default, 1.0, 0.5, 0.25]
    out = []
    for v in vals:
        if v is None:
            continue
        v = kind(v)
        if v not in out:
            out.append(v)
    return out


def check(r, payload, program, base_argv, arglist, tag, only=None):
    """r: Result. Returns number of (option, value) pairs parsed."""
    n = 0
    for flag, kind, default in scalar_options(arglist):
        if only is not None and flag not in only:
            continue
        if flag in base_argv:
            i = base_argv.index(flag)
            stripped = base_argv[:i] + base_argv[i + 2:]
        else:
            stripped = list(base_argv)
        seen = {}
        for v in candidates(kind, default):
            try:
                obj = program.cli(stripped + [flag, repr(v) if kind is float else str(v)])
            except BaseException as e:  # noqa  (SystemExit from argparse, validation errors): not a legal value
                if isinstance(e, KeyboardInterrupt):
                    raise
                continue
            n += 1
            r.evaluations += 1
            r.nontrivial += 1
            seen.setdefault(describe(obj), []).append(v)
        for vals in seen.values():
            if len(vals) > 1:
                r.violation("option-wiring|%s|%s" % (tag, flag), "%s: the values %r of %s give identical program objects (default %r): one of them does not reach the program" % (
                    tag, vals, flag, default), payload)
        r.outcome((tag, flag, len(seen)))
    return n


def check_flags(r, payload, program, base_argv, arglist, tag, only=None):
    """a boolean flag given on the command line must change the program object (and only through its own attribute set)"""
    from mchap.application.arguments import BooleanFlag

    flags = [a.cli for a in arglist if isinstance(a, BooleanFlag) and (only is None or a.cli in only)]
    base = describe(program.cli([x for x in base_argv if x not in flags]))
    seen = {}
    for fl in flags:
        obj = describe(program.cli([x for x in base_argv if x not in flags] + [fl]))
        r.evaluations += 1
        r.nontrivial += 1
        if obj == base:
            r.violation("flag-wiring|%s|%s" % (tag, fl), "%s: giving %s leaves the program object unchanged" % (tag, fl), payload)
        if obj in seen:
            r.violation("flag-wiring|%s|%s" % (tag, fl), "%s: %s and %s give identical program objects" % (tag, fl, seen[obj]), payload)
        seen[obj] = fl
        r.outcome((tag, fl))
    return len(flags)
