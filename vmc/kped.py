"""Small pedigrees for `mchap call-pedigree` with a brute-force reference joint posterior."""
import itertools
import math

import numpy as np

from . import refmodel as ref

HAPS = {2: [[0, 0], [1, 1]], 3: [[0, 0], [0, 1], [1, 1]], 4: [[0, 0], [0, 1], [1, 0], [1, 1]]}
ERRSETS = [(0.05, 0.2), (0.01, 0.01), (0.3, 0.1), (0.15, 0.15)]


def shapes():
    """name -> (ploidy list, parents list, tau list, lambda list, n_haplotypes)"""
    S = {}
    S["founder2"] = ([2], [(-1, -1)], [(1, 1)], [(0, 0)], 3)
    S["founder4"] = ([4], [(-1, -1)], [(2, 2)], [(0, 0)], 3)
    S["duo"] = ([2, 2], [(-1, -1), (0, -1)], [(1, 1), (1, 1)], [(0, 0), (0, 0)], 3)
    S["duo_q"] = ([2, 2], [(-1, -1), (-1, 0)], [(1, 1), (1, 1)], [(0, 0), (0, 0)], 3)
    S["trio"] = ([2, 2, 2], [(-1, -1), (-1, -1), (0, 1)], [(1, 1)] * 3, [(0, 0)] * 3, 3)
    S["trio4"] = ([4, 4, 4], [(-1, -1), (-1, -1), (0, 1)], [(2, 2)] * 3, [(0, 0)] * 3, 2)
    S["trio4_lambda"] = ([4, 4, 4], [(-1, -1), (-1, -1), (0, 1)], [(2, 2)] * 3, [(0, 0), (0, 0), (0.2, 0.1)], 2)
    S["selfing"] = ([2, 2], [(-1, -1), (0, 0)], [(1, 1), (1, 1)], [(0, 0), (0, 0)], 3)
    S["selfing4"] = ([4, 4, 4], [(-1, -1), (0, 0), (1, 1)], [(2, 2)] * 3, [(0, 0), (0.1, 0.1), (0, 0)], 2)
    S["halfsibs"] = ([2, 2, 2, 2, 2], [(-1, -1), (-1, -1), (-1, -1), (0, 1), (0, 2)], [(1, 1)] * 5, [(0, 0)] * 5, 2)
    S["threegen"] = ([2, 2, 2, 2, 2], [(-1, -1), (-1, -1), (0, 1), (-1, -1), (2, 3)], [(1, 1)] * 5, [(0, 0)] * 5, 2)
    S["mixed_2_4_3"] = ([2, 4, 3], [(-1, -1), (-1, -1), (0, 1)], [(1, 1), (2, 2), (1, 2)], [(0, 0)] * 3, 2)
    S["mixed_4_2_3"] = ([4, 2, 3], [(-1, -1), (-1, -1), (0, 1)], [(2, 2), (1, 1), (2, 1)], [(0, 0)] * 3, 2)
    S["tau_1_3"] = ([2, 4, 4], [(-1, -1), (-1, -1), (0, 1)], [(1, 1), (2, 2), (1, 3)], [(0, 0)] * 3, 2)
    S["clonal_2_0"] = ([2, 2, 2], [(-1, -1), (-1, -1), (0, 1)], [(1, 1), (1, 1), (2, 0)], [(0, 0)] * 3, 3)
    S["clonal_0_2"] = ([2, 2, 2], [(-1, -1), (-1, -1), (0, 1)], [(1, 1), (1, 1), (0, 2)], [(0, 0)] * 3, 3)
    S["duo_q4_lambda"] = ([4, 4], [(-1, -1), (-1, 0)], [(2, 2), (2, 2)], [(0, 0), (0, 0.25)], 3)
    S["backcross"] = ([2, 2, 2, 2], [(-1, -1), (-1, -1), (1, 0), (2, 0)], [(1, 1)] * 4, [(0, 0)] * 4, 2)
    S["trio_rev_4_lambda"] = ([4, 4, 4], [(-1, -1), (-1, -1), (1, 0)], [(2, 2)] * 3, [(0, 0), (0, 0), (0.15, 0.3)], 2)
    S["duo_unbalanced"] = ([4, 3], [(-1, -1), (0, -1)], [(2, 2), (2, 1)], [(0, 0), (0, 0)], 3)
    # a target with two known parents whose own child has an unknown parent (and the reverse): per-trio state must not leak between blanket members
    S["threegen_duo"] = ([2, 2, 2, 2], [(-1, -1), (-1, -1), (0, 1), (2, -1)], [(1, 1)] * 4, [(0, 0)] * 4, 2)
    S["threegen_duo_q"] = ([2, 2, 2, 2], [(-1, -1), (-1, -1), (1, 0), (-1, 2)], [(1, 1)] * 4, [(0, 0)] * 4, 2)
    S["duo_then_trio"] = ([2, 2, 2, 2], [(-1, -1), (0, -1), (-1, -1), (1, 2)], [(1, 1)] * 4, [(0, 0)] * 4, 2)
    # progeny listed before their parents (sample order is the order of the BAM arguments, not of the generations)
    S["trio_progeny_first"] = ([2, 2, 2], [(1, 2), (-1, -1), (-1, -1)], [(1, 1)] * 3, [(0, 0)] * 3, 3)
    S["sibs_progeny_first"] = ([2, 2, 2, 2], [(2, 3), (3, 2), (-1, -1), (-1, -1)], [(1, 1)] * 4, [(0, 0)] * 4, 2)
    # parent-error exactly 0 (documented as legal: --gamete-error 0): the "parent is wrong" branches must vanish, not merely be small
    for base in ("trio", "trio4", "mixed_2_4_3", "duo"):
        S[base + "_e0"] = S[base]
    S["threegen_duo_mixed"] = ([4, 4, 4, 3], [(-1, -1), (-1, -1), (0, 1), (2, -1)], [(2, 2), (2, 2), (2, 2), (2, 1)], [(0, 0), (0, 0), (0.1, 0), (0, 0)], 2)
    return S


class Pedigree:
    def __init__(self, name, seed=0, n_haps=None, read_profile=0):
        pl, par, tau, lam, H = shapes()[name]
        self.name = name
        self.H = n_haps or H
        self.n = len(pl)
        self.ploidy = np.array(pl, np.int64)
        self.parents = np.array(par, np.int64)
        self.tau = np.array(tau, np.int64)
        self.lam = np.array(lam, np.float64)
        ep, eq = ERRSETS[seed % len(ERRSETS)]
        self.err = np.array([[ep, eq] if i % 2 == 0 else [eq * 0.5, ep] for i in range(self.n)], np.float64)
        if name.endswith("_e0"):
            self.err[:] = 0.0
        self.maxp = int(self.ploidy.max())
        self.haps = np.array(HAPS[self.H], np.int64)
        fr = [[0.5, 0.5], [0.5, 0.3, 0.2], [0.4, 0.3, 0.2, 0.1]][self.H - 2]
        self.freqs = fr
        self.logf = np.log(np.array(fr))
        self.alleles = list(range(self.H))
        self.fdict = {a: fr[a] for a in self.alleles}
        # reads: unequal numbers of distinct reads per individual, padded with zero-count rows
        n_reads = [(1, 3, 2, 0, 2), (3, 1, 2, 2, 1), (2, 2, 2, 2, 2), (0, 2, 3, 1, 1)][read_profile % 4]
        self.n_reads = [n_reads[i % 5] for i in range(self.n)]
        maxr = max(max(self.n_reads), 1)
        rng = np.random.default_rng(77 + 13 * seed + read_profile)
        self.read_dists = np.full((self.n, maxr, 2, 2), 0.5)
        self.read_counts = np.zeros((self.n, maxr), np.int64)
        self.reads_ref = []
        for i in range(self.n):
            rr, cc = [], []
            # where the zero-count rows sit differs between individuals: trailing padding (as call-pedigree lays it out), leading, or interleaved
            free = maxr - self.n_reads[i]
            slots = list(range(maxr))
            if i % 3 == 1:
                slots = slots[free:]
            elif i % 3 == 2 and free:
                slots = [x for x in slots if x != 1][: self.n_reads[i]]
            for k_, k in zip(slots, range(self.n_reads[i])):
                h = self.haps[rng.integers(self.H)]
                e = [0.05, 0.15, 0.3][rng.integers(3)]
                rd = [[e, e] for _ in range(2)]
                for j in range(2):
                    rd[j][int(h[j])] = 1 - e
                if k == 1:
                    rd[0] = [float("nan"), float("nan")]
                self.read_dists[i, k_] = np.array(rd)
                self.read_counts[i, k_] = 1 + (k + i) % 3
                rr.append([None if rd[j][0] != rd[j][0] else rd[j] for j in range(2)])
                cc.append(int(self.read_counts[i, k_]))
            self.reads_ref.append((rr, cc))
        self.genos = [ref.multisets(self.alleles, int(p)) for p in self.ploidy]
        self._llk = {}
        self._trio = {}

    # ---------------------------------------------------------------- reference joint
    def llk(self, i, g):
        key = (i, g)
        v = self._llk.get(key)
        if v is None:
            rr, cc = self.reads_ref[i]
            v = ref.llk(rr, cc, [tuple(self.haps[a]) for a in g]) if rr else 0.0
            self._llk[key] = v
        return v

    def trio(self, i, g, gp, gq):
        key = (i, g, gp, gq)
        v = self._trio.get(key)
        if v is None:
            p, q = self.parents[i]
            d = ref.trio_pmf(gp if p >= 0 else None, gq if q >= 0 else None, int(self.tau[i, 0]), int(self.tau[i, 1]),
                             float(self.lam[i, 0]), float(self.lam[i, 1]), float(self.err[i, 0]), float(self.err[i, 1]),
                             self.alleles, self.fdict)
            for gg in self.genos[i]:
                self._trio[(i, gg, gp, gq)] = d.get(gg, 0.0)
            v = self._trio[key]
        return v

    def log_joint(self, state):
        """state: tuple of sorted genotype tuples"""
        t = 0.0
        for i in range(self.n):
            p, q = self.parents[i]
            pr = self.trio(i, state[i], state[p] if p >= 0 else None, state[q] if q >= 0 else None)
            if pr <= 0:
                return -math.inf
            t += math.log(pr) + self.llk(i, state[i])
        return t

    def states(self):
        return itertools.product(*self.genos)

    def n_states(self):
        n = 1
        for g in self.genos:
            n *= len(g)
        return n

    # ---------------------------------------------------------------- arrays for the real code
    def genotype_array(self, state, order=None):
        """state -> padded (n, max_ploidy) int array; order: dict individual -> tuple (ordered alleles)"""
        a = np.full((self.n, self.maxp), -1, np.int64)
        for i, g in enumerate(state):
            gg = order[i] if order and i in order else g
            a[i, : len(gg)] = gg
        return a

    def scratch(self):
        return [np.zeros(self.maxp, np.int64) for _ in range(7)] + [np.zeros(self.maxp)]

    def children(self):
        from mchap.pedigree.mcmc import sample_children_matrix

        return sample_children_matrix(self.parents)

    def new_cache(self):
        import numba

        d = numba.typed.Dict.empty(numba.types.UniTuple(numba.types.int64, 2), numba.types.float64)
        d[(-1, -1)] = np.nan
        return d

    def check_cache(self, cache):
        """every entry (sample, genotype index) must equal the fresh likelihood on that sample's own reads;
        returns list of (sample, genotype, cached, fresh)"""
        bad = []
        order = {}
        for (s, gi), v in cache.items():
            if s < 0:
                continue
            P = int(self.ploidy[s])
            if P not in order:
                order[P] = sorted(ref.multisets(self.alleles, P), key=lambda g: g[::-1])
            g = order[P][gi] if gi < len(order[P]) else None
            fresh = self.llk(s, g) if g is not None else float("nan")
            if g is None or abs(v - fresh) > 1e-9 * max(1.0, abs(fresh)):
                bad.append((int(s), g, float(v), fresh))
        return bad
