"""Engine K for the assemble sampler: instances, state spaces, exact kernel rows.

A *state* is an unordered genotype = sorted tuple of haplotype tuples.  The real move functions
work on ordered int8 arrays; `orders(state)` gives every distinct row order."""
import itertools
import math

import numpy as np

from . import refmodel as ref
from .seams import Oracle, patched


class Instance:
    """One small assemble problem: ploidy, per-SNV allele counts, reads (+counts)."""

    def __init__(self, ploidy, n_alleles, read_set, seed):
        self.ploidy = ploidy
        self.n_alleles = tuple(n_alleles)
        self.n_base = len(n_alleles)
        self.read_set = read_set
        self.seed = seed
        self.haps = list(itertools.product(*[range(a) for a in n_alleles]))
        self.states = ref.multisets(self.haps, ploidy)
        self.index = {s: i for i, s in enumerate(self.states)}
        self.U = len(self.haps)
        self.luh = float(np.log(np.array(n_alleles)).sum())
        self.reads, self.counts = make_reads(n_alleles, read_set, seed)
        self.reads_ref = ref.reads_from_array(self.reads)
        self.counts_ref = [int(c) for c in self.counts]
        self._llk = {}

    def name(self):
        return "P%d_A%s_R%d_s%d" % (self.ploidy, "x".join(map(str, self.n_alleles)), self.read_set, self.seed)

    def llk(self, state):
        v = self._llk.get(state)
        if v is None:
            v = ref.llk(self.reads_ref, self.counts_ref, state)
            self._llk[state] = v
        return v

    def prior(self, state, F):
        idx = tuple(self.haps.index(h) for h in state)
        return ref.dm_prior(idx, [1.0 / self.U] * self.U, F)

    def log_pi(self, state, F, T=1.0):
        return (self.llk(state) + math.log(self.prior(state, F))) * T

    def pi(self, F, T):
        lp = [self.log_pi(s, F, T) for s in self.states]
        m = max(lp)
        w = [math.exp(x - m) for x in lp]
        z = sum(w)
        return [x / z for x in w]


def make_reads(n_alleles, read_set, seed):
    """Generic read tensors from a fixed, seed-indexed list of numeric parameter sets.
    read_set 0: 4 soft reads, one with a NaN gap, counts (1,2,1,3), zero probability beyond n_alleles[j]
    read_set 1: 5 sharper reads (error 0.03..0.2), two gaps, counts (2,1,1,1,4)"""
    rng = np.random.default_rng(1000 * (seed % 5) + 17 * read_set + 3)
    nb = len(n_alleles)
    ma = max(n_alleles)
    if read_set == 0:
        nr = 4
        reads = rng.dirichlet(np.ones(ma), size=(nr, nb))
        for j, a in enumerate(n_alleles):
            reads[:, j, a:] = 0.0
        reads[0, 0, :] = np.nan
        if nb >= 3:
            reads[2, 1, :] = np.nan  # a gap *inside* a read (observed - missing - observed), as a read pair leaves it
        # an informative read with count 0 (a row that de-duplication or pooling left without observations): it must weigh nothing
        extra = np.zeros((1, nb, ma))
        for j, a in enumerate(n_alleles):
            extra[0, j, :a] = 0.05 / max(a - 1, 1) if a > 1 else 1.0
            extra[0, j, a - 1] = 0.95 if a > 1 else 1.0
        reads = np.concatenate([reads, extra])
        counts = np.array([1, 2, 1, 3, 0])
    else:
        nr = 5
        reads = np.zeros((nr, nb, ma))
        for r in range(nr):
            for j, a in enumerate(n_alleles):
                call = rng.integers(a)
                e = [0.03, 0.1, 0.2][rng.integers(3)] * (0.8 + 0.4 * rng.random())
                reads[r, j, :a] = e / max(a - 1, 1) if a > 1 else 1.0
                reads[r, j, call] = 1 - e if a > 1 else 1.0
        reads[1, nb - 1, :] = np.nan
        reads[3, 0, :] = np.nan
        if nb >= 3:
            reads[2, 1, :] = np.nan
        counts = np.array([2, 1, 1, 1, 4])
    return reads, counts


def canon(g):
    return tuple(sorted(map(tuple, np.asarray(g).tolist())))


def orders(state):
    """every distinct ordering of the rows of a state"""
    return sorted(set(itertools.permutations(state)))


def as_array(rows):
    return np.array(rows, dtype=np.int8).reshape(len(rows), -1)


def jit_llk(inst, g):
    from mchap.assemble.likelihood import log_likelihood

    return log_likelihood(inst.reads, g, read_counts=inst.counts)


def base_row(inst, rows, h, j, F, T, cache=None, force=None):
    """Run the real base_step (py_func) on ordered genotype `rows`; returns
    (probability vector, forced answer, genotype after, returned llk)."""
    from mchap.assemble import mutation

    g = as_array(rows)
    llk = jit_llk(inst, g)
    cur = int(g[h, j])
    o = Oracle([cur if force is None else force])
    with patched((mutation, "random_choice", o.random_choice)):
        out_llk, cache = mutation.base_step.py_func(
            g, inst.reads, llk, h, j, inst.n_alleles[j], inst.luh, F, T, inst.counts, cache
        )
    (kind, arity, a, w) = o.log[0]
    assert len(o.log) == 1
    return np.array(w), a, g, out_llk


def interval_rows(inst, rows, interval, step_type, F, T):
    """All outcomes of the real interval_step (py_func) on ordered genotype `rows`:
    (list of (probability, successor genotype array, returned llk), seam vector or None)."""
    from mchap.assemble import structural

    g0 = as_array(rows)
    llk0 = jit_llk(inst, g0)
    iv = None if interval is None else np.array(interval)

    def run(script):
        g = g0.copy()
        o = Oracle(script, default="last")
        with patched((structural, "random_choice", o.random_choice)):
            llk1, _ = structural.interval_step.py_func(
                g, inst.reads, llk0, inst.luh, F, iv, step_type, T, inst.counts, None
            )
        return o, g, llk1

    o, g, llk1 = run([])
    if not o.log:
        return [(1.0, g, llk1)], None  # no option: deterministic self loop
    assert len(o.log) == 1
    w = np.array(o.log[0][3])
    n = len(w)
    out = [None] * n
    out[n - 1] = (w[n - 1], g, llk1)  # the default run answered "reject all"
    for k in range(n - 1):
        o, g, llk1 = run([k])
        if not np.array_equal(np.array(o.log[0][3]), w):
            raise AssertionError("seam vector changed between replays")
        out[k] = (w[k], g, llk1)
    return out, w


_peek = None


def numba_uniform(seed):
    """the first uniform numba's RNG yields after seed_numba(seed)"""
    global _peek
    from mchap.jitutils import seed_numba

    if _peek is None:
        import numba

        @numba.njit
        def peek():
            return np.random.random()

        _peek = peek
    seed_numba(seed)
    u = _peek()
    seed_numba(seed)
    return u


def predict_choice(p, u, eps=1e-9):
    """index random_choice would return for uniform u, or None when u is within eps of a boundary"""
    cs = np.cumsum(np.asarray(p, float))
    if np.any(np.abs(cs - u) < eps):
        return None
    return int(np.searchsorted(cs, u, side="right"))
