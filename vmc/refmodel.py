"""Deliberately boring reference models.  Nothing here imports mchap."""
import itertools
import math
from collections import Counter
from fractions import Fraction


def multisets(items, k):
    return list(itertools.combinations_with_replacement(items, k))


def vcf_sorted_genotypes(n_alleles, ploidy):
    """All sorted allele tuples in VCF (G-field) order: sort by the reversed tuple."""
    gs = multisets(range(n_alleles), ploidy)
    return sorted(gs, key=lambda g: tuple(reversed(g)))


def perms(ms):
    c = Counter(ms)
    r = math.factorial(len(ms))
    for v in c.values():
        r //= math.factorial(v)
    return r


# ----------------------------------------------------------------- read likelihood
def read_hap_prob(read, hap):
    """read: per site a list of probabilities or None (gap); hap: tuple of alleles"""
    p = 1.0
    for site, a in zip(read, hap):
        if site is None:
            continue
        v = site[a]
        if v != v:  # NaN cell = no information
            continue
        p *= v
    return p


def llk(reads, counts, haps):
    """sum_r count_r * log( mean_h prod_j P(read_rj | hap_hj) )"""
    t = 0.0
    for r, c in zip(reads, counts):
        m = 0.0
        for h in haps:
            m += read_hap_prob(r, h) / len(haps)
        if m > 0:
            t += c * math.log(m)
        else:
            return -math.inf
    return t


def reads_from_array(arr):
    """numpy (n_reads, n_pos, n_nucl) with NaN gaps -> list representation"""
    out = []
    for r in arr:
        rr = []
        for site in r:
            vals = [float(v) for v in site]
            if all(v != v for v in vals):
                rr.append(None)
            else:
                rr.append(vals)
        out.append(rr)
    return out


# ----------------------------------------------------------------- priors
def rising(x, n):
    r = 1
    for i in range(n):
        r = r * (x + i)
    return r


def dm_prior(ms, freqs, F):
    """P(unordered genotype ms) under multinomial (F == 0) or Dirichlet-multinomial with
    alpha_a = freqs[a] * (1 - F) / F.  Works with float or Fraction inputs.
    freqs: sequence indexed by allele."""
    c = Counter(ms)
    k = len(ms)
    if F == 0:
        p = perms(ms)
        for a, d in c.items():
            p = p * freqs[a] ** d
        return p
    s = (1 - F) / F
    num = 1
    for a, d in c.items():
        num = num * rising(freqs[a] * s, d)
    tot = sum(freqs) * s
    return perms(ms) * num / rising(tot, k)


def posterior(n_alleles, ploidy, llk_of, prior_of):
    """dict sorted-genotype -> normalised posterior; llk_of / prior_of take the tuple."""
    gs = vcf_sorted_genotypes(n_alleles, ploidy)
    logs = []
    for g in gs:
        pr = prior_of(g)
        l = llk_of(g)
        logs.append(l + math.log(pr) if pr > 0 and l > -math.inf else -math.inf)
    m = max(logs)
    w = [math.exp(x - m) if x > -math.inf else 0.0 for x in logs]
    z = sum(w)
    return gs, [x / z for x in w]


# ----------------------------------------------------------------- inheritance
def gamete_dist(parent, tau, lam):
    out = Counter()
    n = len(parent)
    if tau == 0:
        return {(): 1.0}
    subs = list(itertools.combinations(range(n), tau))
    for s in subs:
        out[tuple(sorted(parent[i] for i in s))] += (1 - lam) / len(subs)
    if lam > 0:
        assert tau == 2
        for i in range(n):
            out[(parent[i], parent[i])] += lam / n
    return {k: v for k, v in out.items() if v > 0}


def random_gamete_dist(alleles, freqs, tau):
    out = {}
    for ms in multisets(alleles, tau):
        p = perms(ms)
        for a in ms:
            p *= freqs[a]
        out[ms] = p
    return out


def gamete_side(parent, tau, lam, err, alleles, freqs):
    d = Counter()
    if tau == 0:
        return {(): 1.0}
    if parent is None:
        err = 1.0
    if err < 1:
        for g, p in gamete_dist(parent, tau, lam).items():
            d[g] += (1 - err) * p
    if err > 0:
        for g, p in random_gamete_dist(alleles, freqs, tau).items():
            d[g] += err * p
    return d


def trio_pmf(parent_p, parent_q, tau_p, tau_q, lam_p, lam_q, err_p, err_q, alleles, freqs):
    """distribution over progeny multisets; parent None => unknown"""
    dp = gamete_side(parent_p, tau_p, lam_p, err_p, alleles, freqs)
    dq = gamete_side(parent_q, tau_q, lam_q, err_q, alleles, freqs)
    out = Counter()
    for gp, pp in dp.items():
        for gq, pq in dq.items():
            out[tuple(sorted(gp + gq))] += pp * pq
    return out
