"""Independent text VCF parser and well-formedness rules (no pysam, no mchap)."""
import math


def parse(text):
    hdr = {"INFO": {}, "FORMAT": {}, "FILTER": set(), "contig": {}, "meta": []}
    recs = []
    samples = []
    for l in text.splitlines():
        if l.startswith("##INFO=<") or l.startswith("##FORMAT=<"):
            kind = l[2:l.index("=")]
            body = l[l.index("<") + 1:-1]
            d = {}
            for kv in body.split(",", 3):
                k, v = kv.split("=", 1)
                d[k] = v
            hdr[kind][d["ID"]] = d
        elif l.startswith("##FILTER=<"):
            hdr["FILTER"].add(l.split("ID=")[1].split(",")[0])
        elif l.startswith("##contig=<"):
            body = l[l.index("<") + 1:-1]
            d = dict(kv.split("=", 1) for kv in body.split(","))
            hdr["contig"][d["ID"]] = int(d.get("length", 0))
        elif l.startswith("##"):
            hdr["meta"].append(l)
        elif l.startswith("#CHROM"):
            samples = l.split("\t")[9:]
        elif not l:
            pass
        else:
            f = l.split("\t")
            info = {}
            if f[7] != ".":
                for kv in f[7].split(";"):
                    if "=" in kv:
                        k, v = kv.split("=", 1)
                        info[k] = v.split(",")
                    else:
                        info[kv] = True
            recs.append(dict(chrom=f[0], pos=int(f[1]), id=f[2], ref=f[3], alt=[] if f[4] == "." else f[4].split(","),
                             qual=f[5], filter=f[6], info=info, fmt=f[8].split(":") if len(f) > 8 else [],
                             samples=[dict(zip(f[8].split(":"), s.split(":"))) for s in f[9:]] if len(f) > 8 else [],
                             raw_samples=[s.split(":") for s in f[9:]], line=l, ncols=len(f)))
    return hdr, samples, recs


def ncomb(n, k):
    return math.comb(n + k - 1, k)


def num(x):
    return float("nan") if x == "." else float(x)


def gt_alleles(gt):
    return gt.replace("|", "/").split("/")


def check_record(hdr, samples, r, ploidy=None):
    """Return a list of (rule, detail) problems of one parsed record.  ploidy: dict sample -> expected ploidy."""
    errs = []
    nalt = len(r["alt"])
    if r["ncols"] != 9 + len(samples) and samples:
        errs.append(("columns", "record has %d columns, header has %d samples" % (r["ncols"], len(samples))))
    for k, v in r["info"].items():
        if k not in hdr["INFO"]:
            errs.append(("INFO-undeclared", k))
            continue
        n = hdr["INFO"][k]["Number"]
        if v is True:
            if n != "0":
                errs.append(("INFO-flag", k))
            continue
        if n == "0":
            errs.append(("INFO-flag-with-value", k))
            continue
        if v == ["."]:
            continue
        exp = {"A": nalt, "R": nalt + 1}[n] if n in ("A", "R") else (None if n == "." else int(n))
        if exp is not None and len(v) != exp:
            errs.append(("INFO-cardinality", "%s has %d value(s), Number=%s expects %d" % (k, len(v), n, exp)))
        typ = hdr["INFO"][k]["Type"]
        for x in v:
            if x == ".":
                continue
            try:
                if typ == "Integer":
                    int(x)
                elif typ == "Float":
                    float(x)
            except ValueError:
                errs.append(("INFO-type", "%s=%s is not %s" % (k, x, typ)))
    for f in r["filter"].split(";"):
        if f not in (".",) and f not in hdr["FILTER"]:
            errs.append(("FILTER-undeclared", f))
    for a in r["alt"]:
        if len(a) != len(r["ref"]):
            errs.append(("ALT-length", a))
    if len(set(r["alt"] + [r["ref"]])) != nalt + 1:
        errs.append(("ALT-duplicate", ",".join(r["alt"])))
    for s, vals, d in zip(samples, r["raw_samples"], r["samples"]):
        if len(vals) != len(r["fmt"]):
            errs.append(("FORMAT-length", "%s has %d of %d fields" % (s, len(vals), len(r["fmt"]))))
            continue
        if "GT" not in d:
            errs.append(("GT-missing", s))
            continue
        if r["fmt"][0] != "GT":
            errs.append(("GT-not-first", s))
        gt = gt_alleles(d["GT"])
        P = len(gt)
        if ploidy is not None and s in ploidy and P != ploidy[s]:
            errs.append(("GT-ploidy", "%s GT %s has %d entries, ploidy %d" % (s, d["GT"], P, ploidy[s])))
        al = [a for a in gt if a != "."]
        try:
            ints = [int(a) for a in al]
        except ValueError:
            errs.append(("GT-entry", "%s %s" % (s, d["GT"])))
            continue
        if any(a > nalt or a < 0 for a in ints):
            errs.append(("GT-range", "%s %s with %d ALT" % (s, d["GT"], nalt)))
        if ints != sorted(ints) or "." in gt[:len(al)]:
            errs.append(("GT-order", "%s %s" % (s, d["GT"])))
        for k, v in d.items():
            if k not in hdr["FORMAT"]:
                errs.append(("FORMAT-undeclared", k))
                continue
            if k == "GT" or v == ".":
                continue
            n = hdr["FORMAT"][k]["Number"]
            vv = v.split(",")
            exp = {"A": nalt, "R": nalt + 1, "G": ncomb(nalt + 1, P)}[n] if n in ("A", "R", "G") else (None if n == "." else int(n))
            if exp is not None and len(vv) != exp:
                errs.append(("FORMAT-cardinality", "%s:%s has %d value(s), Number=%s expects %d (alleles=%d, ploidy=%d)" % (s, k, len(vv), n, exp, nalt + 1, P)))
            typ = hdr["FORMAT"][k]["Type"]
            for x in vv:
                if x == ".":
                    continue
                try:
                    if typ == "Integer":
                        int(x)
                    elif typ == "Float":
                        float(x)
                except ValueError:
                    errs.append(("FORMAT-type", "%s:%s=%s is not %s" % (s, k, x, typ)))
    return errs


def rounded_equal(text_value, internal, precision=3):
    """does the printed value equal the internal value rounded to `precision` decimals?"""
    if internal is None or (isinstance(internal, float) and internal != internal):
        return text_value == "."
    if text_value == ".":
        return False
    try:
        t = float(text_value)
    except ValueError:
        return False
    return abs(t - round(float(internal), precision)) <= 0.5 * 10 ** (-precision) * 1.0001 and abs(t - float(internal)) <= 0.5000001 * 10 ** (-precision)
