"""Source of MANIFEST.json (python3 tools_manifest.py regenerates it)."""
SOURCE_COMMITS = []
NOTES = "All checks are bounded exhaustive explorations driving the real mchap code (see DESIGN.md)."
ENGINES = [
    {"name": "S", "path": "vmc/sched.py", "serves_properties": ["C08"],
     "kind_free_text": "cooperative baton scheduler over threads + virtual multiprocessing facade (Queue.put/get, apply_async, AsyncResult.get/wait, close, join are scheduling points); BFS over choice prefixes with canonical state keys; fault injection"},
    {"name": "H", "path": "vmc/checks/c09.py", "serves_properties": ["C09"],
     "kind_free_text": "breadth-first / depth-first explicit-state search over operation histories of the real data structures with canonical-state de-duplication and a reference model evaluated in every state"},
    {"name": "K", "path": "vmc/seams.py, vmc/kasm.py, vmc/kcall.py", "serves_properties": ["C01", "C02", "C18"],
     "kind_free_text": "explicit-state Markov-kernel extraction: sampler bodies run as numba py_func with every random seam replaced by an oracle that records the probability vector and forces each answer; DFS over answer sequences"},
    {"name": "inputs", "path": "vmc/checks", "serves_properties": ["C03", "C04", "C05", "C11", "C17"],
     "kind_free_text": "bounded exhaustive enumeration of inputs/configurations against boring reference models"},
]
_PENDING = "check not built yet in this session (work in progress; see DESIGN.md build order)"
CHECKS = {
    "C08": dict(engine="S", category="model_checking",
                technique="stateless exploration of every interleaving of the real multi-core runner under a cooperative scheduler with explicit-state de-duplication and fault injection at every locus; exhaustive operation-history and ordered-subset enumeration; real-process conformance runs",
                text="The real _run_stdout_multi_core/_worker/_writer run as tasks over a virtual multiprocessing facade whose queue/pool operations are scheduling points; all interleavings for loci 1..5 x cores 2..4 are explored, without failure and with a failing locus at every position: header first, every record exactly once as one intact write by the writer, no deadlock, and a failure always ends the main task with an exception. All operation histories (other fits, RNG draws, reseeding; seeds 0 and 7) before a fit, all 64 ordered subsets of 4 loci for assemble/call/call-exact, the np.array_split block partition, and real CLI subprocess runs (--cores 1/2/3/6, permuted BED, worker-side failure) complete the quantifiers.",
                note="Not owned: OS scheduling, pickling into workers, pipe-level atomicity of stdout writes in forked processes."),
    "C09": dict(engine="H", category="model_checking",
                technique="explicit-state BFS over array_map set/get histories vs dict; exhaustive (move, forced answer) histories of a two-chain assemble system in lock-step under three cache configurations; per-call audit of a caller-supplied pedigree cache",
                text="array_map: every reachable state within the depth bound for six tiny configurations that force growth and flushes, every key read back after every transition. Assemble: every history of base/interval/exchange moves to depth 3 with None / tiny (flushing) / default caches in lock-step: identical seam vectors and trajectories, carried llk == recomputed, every served and stored value == fresh likelihood. Call: cached likelihood over call orders; pedigree: cache inspected after every Gibbs/MH/exchange call on pedigrees with unequal read numbers; jitted DenovoMCMC/_denovo_assembler traces (cache thresholds -1/0/100, heated chains) carry the recomputed llk.",
                note="Trusted: dict reference, refmodel.llk. Canonical array_map state = exact bytes (no abstraction)."),
    "C03": dict(engine="inputs", category="exploration",
                technique="bounded exhaustive enumeration of (ploidy, haplotype set, frequencies, F, read multiset) and of all report-field subsets against a reference posterior",
                text="Every case in the bound is evaluated on both the streaming (posterior_mode) and full-array (genotype_likelihoods/posteriors) paths and on call_exact.program.call_sample_genotypes for every subset of optional report fields; GT/GPM/SPM/AFP/ACP/AOP/GP/GL are compared with an independent normalised likelihood x prior in VCF order.",
                note="Trusted: refmodel posterior; float32 tolerance for the GL path; exact ties accept any maximiser."),
    "C04": dict(engine="inputs", category="exploration",
                technique="bounded exhaustive enumeration of read multisets over a per-site alphabet x genotypes x rearrangement index vectors x intervals",
                text="All read sets (<=2 reads quick) over an alphabet with gaps, confident/flat/non-listed calls, all genotypes and all P^P rearrangement vectors x intervals: jitted and py_func likelihoods equal the literal mixture formula, are order-invariant, treat counts as copies, and the structural-change likelihood equals the likelihood of the rearranged genotype; all cached/calling/pedigree wrappers agree.",
                note="Trusted: refmodel.llk."),
    "C11": dict(engine="inputs", category="exploration",
                technique="exhaustive enumeration of all genotypes per (ploidy, alleles) against sorted reference order; walker as one-operation state machine; binomial grid + 2^53 frontier windows",
                text="For all (P<=14,H<=160) with N<=3e4 every genotype: index map == position in the VCF-spec order, inverse, bijection onto 0..N-1, increment_genotype walks that order; comb/comb_with_replacement/count_unique_genotypes vs math.comb on n<200,k<20 and along the N<2^53 frontier for all k<=80.",
                note="Trusted: math.comb, itertools."),
    "C17": dict(engine="inputs", category="exploration",
                technique="exhaustive enumeration of small trios/duos/founders against brute-force inheritance; dosage walker state machine",
                text="All parent genotype pairs over 3 alleles, ploidy {2,4} or unknown, all tau pairs incl. 0/unbalanced, lambda, all error pairs from a grid, two frequency vectors x all progeny genotypes: trio_log_pmf equals brute-force inheritance and sums to one; positive <=> trio_valid/duo_valid at zero error; gamete pmf sums to one; increment_dosage visits every constrained dosage once.",
                note="Trusted: refmodel.trio_pmf (enumeration of gametes)."),
    "C18": dict(engine="K", category="model_checking",
                technique="exhaustive joint-state x individual x slot enumeration of Gibbs/MH vectors vs brute-force joint; exchange step extracted with owned randint/uniform seams on every slot pair and decision",
                text="Every joint state of 17 small pedigree shapes (incl. unbalanced tau, clonal, selfing, lambda, mixed ploidy, multi-generation, edge-specific errors): Gibbs == exact full conditional, MH and parental exchange satisfy detailed balance w.r.t. the reference joint, exchange effect/rollback, parental pairs/blankets, cache contents; the compiled exchange step lands on a model edge.",
                note="Trusted: refmodel joint (likelihood x brute-force inheritance)."),
    "C01": dict(engine="K", category="model_checking",
                technique="explicit-state extraction of the exact Markov kernel of every elementary move (random seam owned, every answer forced) + invariants on every state/edge; exhaustive answer-sequence enumeration of the orchestration loop",
                text="For every instance in the bound, all unordered genotypes in all row orders are fed to the real base_step / interval_step / chain_swap_step bodies; the exact transition rows are read off the seam and detailed balance w.r.t. an independent reference posterior, order-invariance, proposal de-duplication, returned likelihood, exchange acceptance and irreducibility are decided on every state and edge. The orchestration loop is run against recording stubs for every gate/swap answer sequence and compared with a reference loop. A proposal-ratio error shows as a violated edge, not as drift inside a statistical tolerance.",
                note="Trusted: refmodel likelihood/prior; py_func == dispatcher source (cross-checked by predicting the compiled move from numba's RNG once per state and move). Bounds in evidence."),
    "C02": dict(engine="K", category="model_checking",
                technique="exhaustive state x slot x allele enumeration of Gibbs/MH vectors; exact compound-step transition matrix by enumerating every scan order and choice sequence; pi P = pi",
                text="All sorted genotypes (every slot order, every slot) over H<=4 haplotypes and P<=4 with flat/skewed/zero-entry frequencies: Gibbs vector == exact full conditional of the reference posterior, MH detailed balance, zero mass into zero-prior states; compound step matrix from all seam answer paths is stationary at the reference posterior; jitted sampler traces follow positive edges with exact llk.",
                note="Trusted: refmodel posterior. Monte-Carlo error size is not measured."),
    "C05": dict(engine="inputs", category="exploration",
                technique="bounded exhaustive input enumeration vs exact reference pmf",
                text="Every (ploidy, allele count, inbreeding, frequency-grid vector incl. zeros) x every unordered genotype x every slot inside the stated bound is evaluated on the jitted prior functions and compared with an exact multinomial/Dirichlet-multinomial reference; sum-to-one, conditional and assemble==call(flat) are decided on the complete bounded space, which unit tests only sample at a few points.",
                note="Trusted: python math/fractions reference; float tolerance rtol 1e-9. Bound: P<=5,H<=4 (quick), P<=6,H<=5 (thorough)."),
}
NOT_APPLICABLE = [
    {"property_id": "C%02d" % i, "reason": _PENDING} for i in range(1, 21) if "C%02d" % i not in CHECKS
]
