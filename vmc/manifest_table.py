"""Source of MANIFEST.json (python3 tools_manifest.py regenerates it)."""
SOURCE_COMMITS = []
NOTES = "All checks are bounded exhaustive explorations driving the real mchap code (see DESIGN.md)."
ENGINES = [
    {"name": "inputs", "path": "vmc/checks", "serves_properties": ["C05"],
     "kind_free_text": "bounded exhaustive enumeration of inputs/configurations against boring reference models"},
]
_PENDING = "check not built yet in this session (work in progress; see DESIGN.md build order)"
CHECKS = {
    "C05": dict(engine="inputs", category="exploration",
                technique="bounded exhaustive input enumeration vs exact reference pmf",
                text="Every (ploidy, allele count, inbreeding, frequency-grid vector incl. zeros) x every unordered genotype x every slot inside the stated bound is evaluated on the jitted prior functions and compared with an exact multinomial/Dirichlet-multinomial reference; sum-to-one, conditional and assemble==call(flat) are decided on the complete bounded space, which unit tests only sample at a few points.",
                note="Trusted: python math/fractions reference; float tolerance rtol 1e-9. Bound: P<=5,H<=4 (quick), P<=6,H<=5 (thorough)."),
}
NOT_APPLICABLE = [
    {"property_id": "C%02d" % i, "reason": _PENDING} for i in range(1, 21) if "C%02d" % i not in CHECKS
]
