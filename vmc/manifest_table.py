"""Source of MANIFEST.json (python3 tools_manifest.py regenerates it)."""
SOURCE_COMMITS = []
NOTES = "All checks are bounded exhaustive explorations driving the real mchap code (see DESIGN.md)."
ENGINES = [
    {"name": "K", "path": "vmc/seams.py, vmc/kasm.py, vmc/kcall.py", "serves_properties": ["C01", "C02"],
     "kind_free_text": "explicit-state Markov-kernel extraction: sampler bodies run as numba py_func with every random seam replaced by an oracle that records the probability vector and forces each answer; DFS over answer sequences"},
    {"name": "inputs", "path": "vmc/checks", "serves_properties": ["C05"],
     "kind_free_text": "bounded exhaustive enumeration of inputs/configurations against boring reference models"},
]
_PENDING = "check not built yet in this session (work in progress; see DESIGN.md build order)"
CHECKS = {
    "C01": dict(engine="K", category="model_checking",
                technique="explicit-state extraction of the exact Markov kernel of every elementary move (random seam owned, every answer forced) + invariants on every state/edge; exhaustive answer-sequence enumeration of the orchestration loop",
                text="For every instance in the bound, all unordered genotypes in all row orders are fed to the real base_step / interval_step / chain_swap_step bodies; the exact transition rows are read off the seam and detailed balance w.r.t. an independent reference posterior, order-invariance, proposal de-duplication, returned likelihood, exchange acceptance and irreducibility are decided on every state and edge. The orchestration loop is run against recording stubs for every gate/swap answer sequence and compared with a reference loop. A proposal-ratio error shows as a violated edge, not as drift inside a statistical tolerance.",
                note="Trusted: refmodel likelihood/prior; py_func == dispatcher source (cross-checked by predicting the compiled move from numba's RNG once per state and move). Bounds in evidence."),
    "C02": dict(engine="K", category="model_checking",
                technique="exhaustive state x slot x allele enumeration of Gibbs/MH vectors; exact compound-step transition matrix by enumerating every scan order and choice sequence; pi P = pi",
                text="All sorted genotypes (every slot order, every slot) over H<=4 haplotypes and P<=4 with flat/skewed/zero-entry frequencies: Gibbs vector == exact full conditional of the reference posterior, MH detailed balance, zero mass into zero-prior states; compound step matrix from all seam answer paths is stationary at the reference posterior; jitted sampler traces follow positive edges with exact llk.",
                note="Trusted: refmodel posterior. Monte-Carlo error size is not measured."),
    "C05": dict(engine="inputs", category="exploration",
                technique="bounded exhaustive input enumeration vs exact reference pmf",
                text="Every (ploidy, allele count, inbreeding, frequency-grid vector incl. zeros) x every unordered genotype x every slot inside the stated bound is evaluated on the jitted prior functions and compared with an exact multinomial/Dirichlet-multinomial reference; sum-to-one, conditional and assemble==call(flat) are decided on the complete bounded space, which unit tests only sample at a few points.",
                note="Trusted: python math/fractions reference; float tolerance rtol 1e-9. Bound: P<=5,H<=4 (quick), P<=6,H<=5 (thorough)."),
}
NOT_APPLICABLE = [
    {"property_id": "C%02d" % i, "reason": _PENDING} for i in range(1, 21) if "C%02d" % i not in CHECKS
]
