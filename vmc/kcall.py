"""Small `mchap call` / `call-exact` instances with a reference posterior."""
import itertools
import math

import numpy as np

from . import refmodel as ref

HAPSETS = {
    1: [[0, 0]],
    2: [[0, 0], [1, 1]],
    3: [[0, 0], [0, 1], [1, 1]],
    4: [[0, 0, 0], [0, 1, 1], [1, 1, 0], [1, 0, 1]],
    5: [[0, 0, 0], [0, 1, 1], [1, 1, 0], [1, 0, 1], [2, 1, 1]],
}
# the same allele sequence listed twice (distinct allele numbers, identical likelihood)
HAPSETS_DUP = {
    3: [[0, 0], [0, 1], [0, 1]],
    4: [[0, 0, 0], [0, 1, 1], [1, 1, 0], [0, 1, 1]],
}
ERR = [0.03, 0.08, 0.15, 0.01, 0.25]


def freq_options(H):
    """None (flat, no vector), explicit flat, skewed, zero at the first / last allele"""
    out = [("none", None), ("flat", [1.0 / H] * H)]
    if H >= 2:
        w = [4, 2, 1, 1, 3][:H]
        out.append(("skew", [x / sum(w) for x in w]))
        out.append(("zero-first", [0.0] + [1.0 / (H - 1)] * (H - 1)))
        out.append(("zero-last", [1.0 / (H - 1)] * (H - 1) + [0.0]))
    return out


class CallInstance:
    def __init__(self, H, P, fname, F, seed=0, read_variant=0):
        self.H, self.P, self.F, self.fname = H, P, F, fname
        dup = fname.endswith("+dup")
        fname = fname[:-4] if dup else fname
        self.haps = np.array((HAPSETS_DUP if dup else HAPSETS)[H], np.int8)
        self.freqs = dict(freq_options(H))[fname]
        self.farr = None if self.freqs is None else np.array(self.freqs, float)
        self.fref = [1.0 / H] * H if self.freqs is None else list(self.freqs)
        e = ERR[(seed + read_variant) % len(ERR)]
        n_pos = self.haps.shape[1]
        ma = int(self.haps.max()) + 1
        ma = max(ma, 2)

        def rd(h, err):
            out = []
            for x in h:
                row = [err / (ma - 1)] * ma
                row[int(x)] = 1 - err
                out.append(row)
            return out

        reads = [rd(self.haps[0], e), rd(self.haps[min(1, H - 1)], e * 1.7), rd(self.haps[-1], e * 0.6)]
        reads[2][0] = None  # gap
        if read_variant == 1:
            reads.append(rd(self.haps[H // 2], e * 2.3))
            reads[0][n_pos - 1] = None
        self.reads_ref = reads
        self.counts_ref = [2, 1, 3, 1][: len(reads)]
        self.R = np.array([[s if s is not None else [np.nan] * ma for s in r] for r in reads], float)
        self.C = np.array(self.counts_ref)
        self.gens = ref.multisets(range(H), P)
        self._post = None
        self._llk = {}

    def name(self):
        return "H%d_P%d_%s_F%g" % (self.H, self.P, self.fname, self.F)

    def llk(self, g):
        g = tuple(sorted(g))
        v = self._llk.get(g)
        if v is None:
            v = ref.llk(self.reads_ref, self.counts_ref, [tuple(self.haps[a]) for a in g])
            self._llk[g] = v
        return v

    def prior(self, g):
        return ref.dm_prior(tuple(sorted(g)), self.fref, self.F)

    def post(self):
        """dict sorted genotype -> posterior probability (reference)"""
        if self._post is None:
            w = {}
            for g in self.gens:
                pr = self.prior(g)
                w[g] = pr * math.exp(self.llk(g)) if pr > 0 else 0.0
            z = sum(w.values())
            self._post = {g: v / z for g, v in w.items()}
        return self._post

    def vcf_order(self):
        return sorted(self.gens, key=lambda g: tuple(reversed(g)))
