"""Result accumulator shared by all checks (picklable, mergeable)."""
import hashlib
import json
import math

MAX_VIOL_PER_RESULT = 40
MAX_OUTCOMES = 20000


def _jsonable(x):
    import numpy as np

    if isinstance(x, dict):
        return {str(k): _jsonable(v) for k, v in x.items()}
    if isinstance(x, (list, tuple, set, frozenset)):
        return [_jsonable(v) for v in x]
    if isinstance(x, np.ndarray):
        return _jsonable(x.tolist())
    if isinstance(x, (np.integer,)):
        return int(x)
    if isinstance(x, (np.floating,)):
        x = float(x)
    if isinstance(x, (np.bool_,)):
        return bool(x)
    if isinstance(x, float):
        if math.isnan(x):
            return "nan"
        if math.isinf(x):
            return "inf" if x > 0 else "-inf"
        return x
    if isinstance(x, (str, int, bool)) or x is None:
        return x
    if isinstance(x, bytes):
        return x.hex()
    return repr(x)


jsonable = _jsonable


class Result:
    _current = None  # the accumulator most recently created in this process (salvaged by the runner if the job dies in harness code)

    def __init__(self):
        Result._current = self
        self.evaluations = 0  # cases executed
        self.nontrivial = 0  # distinct & non-trivial cases (each job enumerates distinct cases)
        self.states = 0
        self.transitions = 0
        self.traces = 0  # model traces / predictions validated against the (jitted / real) impl
        self.outcomes = set()  # digests of distinct observed outcomes (vacuity guard)
        self.samples = []
        self.violations = []
        self._keys = set()
        self.n_violations = 0
        self.notes = []
        self.caps = []  # caps hit -> never called exhaustive
        self.counters = {}  # summed
        self.maxima = {}  # max-merged (e.g. largest numeric deviation seen)

    # -- recording -------------------------------------------------------
    def count(self, name, n=1):
        self.counters[name] = self.counters.get(name, 0) + n

    def maxi(self, name, v):
        v = float(v)
        if not (v != v):
            if v > self.maxima.get(name, -math.inf):
                self.maxima[name] = v

    def outcome(self, obj):
        if len(self.outcomes) < MAX_OUTCOMES:
            if not isinstance(obj, (str, bytes)):
                obj = json.dumps(_jsonable(obj), sort_keys=True)
            if isinstance(obj, str):
                obj = obj.encode()
            self.outcomes.add(hashlib.blake2b(obj, digest_size=8).hexdigest())

    def sample(self, obj, cap=4):
        if len(self.samples) < cap:
            self.samples.append(_jsonable(obj))

    def note(self, text):
        if text not in self.notes:
            self.notes.append(text)

    def cap(self, text):
        if text not in self.caps:
            self.caps.append(text)

    def violation(self, key, msg, payload):
        """key: stable case identifier (used for known-finding matching);
        payload: whatever replay() of the check needs to re-run this one case."""
        self.n_violations += 1
        key = str(key)
        if key in self._keys:  # one stored example per distinct key (so a frequent finding cannot crowd out others)
            return
        if len(self.violations) < MAX_VIOL_PER_RESULT:
            self._keys.add(key)
            self.violations.append({"key": key, "msg": str(msg), "payload": _jsonable(payload)})
        else:
            self.cap("more than %d distinct violation keys in one job" % MAX_VIOL_PER_RESULT)

    # -- merging ---------------------------------------------------------
    def merge(self, o):
        self.evaluations += o.evaluations
        self.nontrivial += o.nontrivial
        self.states += o.states
        self.transitions += o.transitions
        self.traces += o.traces
        if len(self.outcomes) < MAX_OUTCOMES:
            self.outcomes |= o.outcomes
        for s in o.samples:
            if len(self.samples) < 6:
                self.samples.append(s)
        self.n_violations += o.n_violations
        for v in o.violations:
            if v["key"] in self._keys:
                continue
            if len(self.violations) < 400:
                self._keys.add(v["key"])
                self.violations.append(v)
        for n in o.notes:
            self.note(n)
        for c in o.caps:
            self.cap(c)
        for k, v in o.counters.items():
            self.counters[k] = self.counters.get(k, 0) + v
        for k, v in o.maxima.items():
            self.maxi(k, v)
        return self
