"""Dispatch, parallel execution, evidence, VIOLATION / KNOWN-FINDING lines."""
import argparse
import hashlib
import importlib
import json
import multiprocessing as mp
import os
import pathlib
import subprocess
import sys
import time
import traceback

from .result import Result, jsonable
from . import findings

VERIF = pathlib.Path(__file__).resolve().parent.parent
ALL = ["C%02d" % i for i in range(1, 21)]


def _load(pid):
    return importlib.import_module("vmc.checks." + pid.lower())


_MOD = None


def _job_runner(job):
    """Runs in a forked worker.  Never raises: an exception is returned for triage."""
    t0 = time.time()
    Result._current = None
    try:
        r = _MOD.run_job(job)
        r.counters["job_seconds"] = r.counters.get("job_seconds", 0) + (time.time() - t0)
        if isinstance(job, tuple) and job and isinstance(job[0], str):
            k = "seconds_" + job[0]
            r.counters[k] = r.counters.get(k, 0) + (time.time() - t0)
            r.maxima["slowest_job_s"] = max(r.maxima.get("slowest_job_s", 0), time.time() - t0)
        return ("ok", r, None)
    except BaseException as e:  # noqa
        tb = traceback.extract_tb(e.__traceback__)
        # the deepest frame that belongs to either the harness or the code under test decides who raised (an exception
        # surfacing inside numba / numpy is attributed to whoever called into them)
        own = [f for f in tb if "/verif/vmc/" in f.filename or ("/mchap/" in f.filename and "/site-packages/" not in f.filename and "/verif/" not in f.filename)]
        last = own[-1] if own else (tb[-1] if tb else None)
        in_repo = last is not None and "/mchap/" in last.filename and "/verif/" not in last.filename
        where = "%s:%s" % (os.path.basename(last.filename), last.name) if last is not None else "?"
        return (
            "exc",
            {
                "job": jsonable(job),
                "type": type(e).__name__,
                "msg": str(e)[:500],
                "where": where,
                "in_repo": in_repo,
                "tb": "".join(traceback.format_exception(type(e), e, e.__traceback__))[-4000:],
            },
            Result._current,  # what the job had already established before it died: violations found so far are not lost
        )


def _nproc():
    try:
        n = len(os.sched_getaffinity(0))
    except Exception:
        n = os.cpu_count() or 1
    return max(1, min(16, int(os.environ.get("VMC_PROCS", n))))


def _worker_loop(conn):
    """forked worker: receive (index, job), answer (index, status, payload); None = stop"""
    while True:
        try:
            msg = conn.recv()
        except EOFError:
            return
        if msg is None:
            return
        i, job = msg
        conn.send((i,) + _job_runner(job))


def execute(mod, jobs, progress=True):
    """Run the jobs on up to 16 forked workers.  The code under test is partly native (numba, htslib): a worker that dies
    (segmentation fault, abort, heap corruption, os._exit) must not hang or kill the run.  Every worker therefore has its
    own pipe, the parent waits on pipes *and* process sentinels, and a job whose worker died is reported as a violation
    (the harness itself is pure Python and cannot crash the interpreter) before a replacement worker is forked."""
    global _MOD
    _MOD = mod
    total = Result()
    harness_errors = []
    n = _nproc()
    t0 = time.time()
    done = 0
    last = t0

    def account(status, r, partial=None):
        if partial is not None and status != "ok" and partial.n_violations:
            total.merge(partial)
        if status == "ok":
            total.merge(r)
        elif r["in_repo"]:
            total.violation(
                "exception:%s:%s" % (r["type"], r["where"]),
                "uncaught %s in repository code at %s: %s" % (r["type"], r["where"], r["msg"]),
                {"kind": "job", "job": r["job"], "tb": r["tb"]},
            )
        else:
            harness_errors.append(r)

    def tick():
        nonlocal last
        if progress and time.time() - last > 20:
            last = time.time()
            print("  .. %d/%d jobs, %.0fs, evals=%d viol=%d" % (done, len(jobs), last - t0, total.evaluations, total.n_violations), file=sys.stderr, flush=True)

    if n == 1 or len(jobs) <= 1 or os.environ.get("VMC_INLINE") == "1":
        for job in jobs:
            status, r, part = _job_runner(job)
            done += 1
            account(status, r, part)
            tick()
        return total, harness_errors

    from multiprocessing.connection import wait as mp_wait

    ctx = mp.get_context("fork")
    job_timeout = float(os.environ.get("VMC_JOB_TIMEOUT", "3000"))
    workers = {}  # sentinel -> [process, parent_conn, current job index or None, start time]

    def spawn():
        a, b = ctx.Pipe()
        p = ctx.Process(target=_worker_loop, args=(b,), daemon=True)
        p.start()
        b.close()
        workers[p.sentinel] = [p, a, None, 0.0]
        return p.sentinel

    def feed(sent):
        nonlocal next_job
        w = workers[sent]
        if next_job < len(jobs):
            w[2], w[3] = next_job, time.time()
            w[1].send((next_job, jobs[next_job]))
            next_job += 1
        else:
            w[2] = None
            try:
                w[1].send(None)
            except (BrokenPipeError, OSError):
                pass

    def crashed(sent, why):
        w = workers.pop(sent)
        idx = w[2]
        try:
            w[1].close()
        except OSError:
            pass
        if idx is not None:
            if why.startswith("signal 9") or why.startswith("no result"):
                # SIGKILL (out-of-memory killer) or a hang says nothing certain about the code under test: no verdict
                harness_errors.append({"job": jsonable(jobs[idx]), "type": "WorkerLost", "msg": "worker lost (%s)" % why, "where": "?", "in_repo": False, "tb": ""})
                return True
            total.violation(
                "crash:%s" % why,
                "the interpreter running this job died (%s): native code under test crashed or corrupted memory" % why,
                {"kind": "job", "job": jsonable(jobs[idx])},
            )
            return True
        return False

    next_job = 0
    for _ in range(min(n, len(jobs))):
        feed(spawn())
    while done < len(jobs):
        conns = {w[1]: s for s, w in workers.items() if w[2] is not None}
        if not conns:
            break
        ready = mp_wait(list(conns) + [s for s, w in workers.items() if w[2] is not None], timeout=5.0)
        handled = set()
        for obj in ready:
            sent = conns.get(obj, obj)
            if sent in handled or sent not in workers:
                continue
            handled.add(sent)
            w = workers[sent]
            got = None
            try:
                if w[1].poll():
                    got = w[1].recv()
            except (EOFError, OSError):
                got = None
            if got is not None:
                _, status, r, part = got
                done += 1
                account(status, r, part)
                feed(sent)
            elif not w[0].is_alive():
                w[0].join()
                code = w[0].exitcode
                why = "signal %d" % -code if code is not None and code < 0 else "exit status %r" % code
                if crashed(sent, why):
                    done += 1
                    if next_job < len(jobs):
                        feed(spawn())
        now = time.time()
        for sent, w in list(workers.items()):
            if w[2] is not None and now - w[3] > job_timeout:
                w[0].kill()
                w[0].join()
                if crashed(sent, "no result after %.0f s (hang)" % job_timeout):
                    done += 1
                    if next_job < len(jobs):
                        feed(spawn())
        tick()
    for sent, w in list(workers.items()):
        try:
            w[1].send(None)
        except (BrokenPipeError, OSError):
            pass
    for sent, w in list(workers.items()):
        w[0].join(timeout=10)
        if w[0].is_alive():
            w[0].kill()
    return total, harness_errors


def write_evidence(pid, mod, tier, seed, total, wall, n_jobs, new_viol, known_hits):
    meta = getattr(mod, "META", {})
    level = meta.get("level", "model_checking")
    exhaustive = not total.caps
    cov = {
        "evaluations": int(total.evaluations),
        "distinct_nontrivial": int(total.nontrivial),
        "rule": meta.get("rule", ""),
        "samples": total.samples[:6] or ["<none>"],
        "states": int(total.states),
        "transitions": int(total.transitions),
        "traces_validated_against_impl": int(total.traces),
        "exhaustive": bool(exhaustive),
        "bound": meta.get("bound", {}).get(tier, "") if isinstance(meta.get("bound"), dict) else meta.get("bound", ""),
        "caps_hit": total.caps,
        "distinct_observed_outcomes": len(total.outcomes),
        "jobs": n_jobs,
        "counters": {k: (round(v, 3) if isinstance(v, float) else v) for k, v in sorted(total.counters.items())},
        "max_deviation": {k: v for k, v in sorted(total.maxima.items())},
        "notes": total.notes,
        "known_findings_hit": known_hits,
        "source_hash": os.environ.get("VMC_SOURCE_HASH", ""),
        "trusted_base": meta.get("trusted_base", []),
    }
    if level != "model_checking":
        # keep the state-graph keys only where they were measured
        if not total.states:
            for k in ("states", "transitions"):
                cov.pop(k)
    ev = {
        "property_id": pid,
        "tier": tier,
        "seed": int(seed),
        "level": level,
        "coverage": cov,
        "assumptions": meta.get("assumptions", []),
        "wall_s": round(wall, 2),
        "violations": int(len(new_viol)),
    }
    evdir = "evidence" if os.environ.get("VERIF_REPO", "/repo") == "/repo" else ".scratch/evidence-other-tree"
    out = VERIF / evdir / (pid + ".json")
    out.parent.mkdir(parents=True, exist_ok=True)
    tmp = out.with_suffix(".json.tmp")
    tmp.write_text(json.dumps(ev, indent=1, sort_keys=False) + "\n")
    os.replace(tmp, out)
    return out


def _replay_file(pid, v):
    d = VERIF / "replays" / pid
    d.mkdir(parents=True, exist_ok=True)
    body = json.dumps({"property": pid, **v}, indent=1, sort_keys=True)
    h = hashlib.sha256(body.encode()).hexdigest()[:12]
    p = d / (h + ".json")
    p.write_text(body + "\n")
    return p


def _warm(mod, tier):
    """Compile the jitted functions once in the parent. Only a speed-up: if the code under test raises here, the
    jobs meet the same exception under their own oracles and report it as a violation."""
    if hasattr(mod, "warm"):
        try:
            mod.warm(tier)
        except BaseException as e:  # noqa
            if isinstance(e, KeyboardInterrupt):
                raise
            print("  warm-up raised %s: %s (left to the jobs to judge)" % (type(e).__name__, str(e)[:200]))


def run_check(pid, tier, seed, replay=None):
    t0 = time.time()
    mod = _load(pid)
    if replay:
        payload = json.loads(pathlib.Path(replay).read_text())
        _warm(mod, tier)
        r = mod.replay(payload["payload"]) if hasattr(mod, "replay") else _generic_replay(mod, payload["payload"])
        if r.n_violations:
            for v in r.violations[:5]:
                print("REPLAY-FAIL %s :: %s" % (v["key"], v["msg"]))
            print("VIOLATION property=%s replay=%s" % (pid, replay))
            return 1
        print("replay passed: property=%s %s" % (pid, replay))
        return 0

    _warm(mod, tier)
    jobs = mod.plan(tier, seed)
    total, herrs = execute(mod, jobs)
    if hasattr(mod, "finalize"):
        mod.finalize(total, tier, seed)
    wall = time.time() - t0

    known, fixed = findings.load(pid)
    new_viol, known_hits = [], {}
    for v in total.violations:
        k = findings.match(known, v["key"])
        if k is not None:
            known_hits[k["what"]] = known_hits.get(k["what"], 0) + 1
        else:
            new_viol.append(v)
    # distinct by key
    seen, distinct = set(), []
    for v in new_viol:
        if v["key"] not in seen:
            seen.add(v["key"])
            distinct.append(v)

    ev = write_evidence(pid, mod, tier, seed, total, wall, len(jobs), distinct, known_hits)
    print(
        "%s tier=%s seed=%s jobs=%d evals=%d nontrivial=%d states=%d transitions=%d impl_traces=%d outcomes=%d wall=%.1fs"
        % (pid, tier, seed, len(jobs), total.evaluations, total.nontrivial, total.states,
           total.transitions, total.traces, len(total.outcomes), wall)
    )
    for c in total.caps:
        print("CAP: " + c)
    for k in known:
        # a listed finding is announced on every run (and must still reproduce to stay listed)
        n = known_hits.get(k["what"], 0)
        print("KNOWN-FINDING: property=%s %s%s" % (pid, k["what"], "" if n else " (not exercised by this tier)"))
    if herrs:
        for h in herrs[:3]:
            print("HARNESS-ERROR in job %s: %s: %s\n%s" % (json.dumps(h["job"])[:200], h["type"], h["msg"], h["tb"]), file=sys.stderr)
        print("HARNESS-ERROR property=%s %d job(s) raised inside the harness" % (pid, len(herrs)))
        if not distinct:
            return 2
    if total.evaluations == 0:
        print("HARNESS-ERROR property=%s nothing was explored" % pid)
        return 2
    if distinct:
        # a native crash (SIGSEGV / SIGABRT from corrupted memory) was observed as a fact and need not recur at the same job;
        # every other violation is replayed from its file in a fresh interpreter before it is trusted: the same case must fail again
        distinct.sort(key=lambda v: v["key"].startswith("crash:"))
        if os.environ.get("VMC_NO_REPLAY_CONFIRM") != "1":
            p0 = _replay_file(pid, distinct[0])
            try:
                rp = subprocess.run([str(VERIF / "check"), pid, "--replay", str(p0)], capture_output=True, text=True, timeout=900,
                                    env=dict(os.environ, VMC_BOOTSTRAPPED="0", VMC_NO_REPLAY_CONFIRM="1"))
                if rp.returncode == 0 and distinct[0]["key"].startswith("crash:"):
                    print("the crashing job did not crash again when replayed from %s (memory corruption need not recur); reported as observed" % p0)
                elif rp.returncode == 0:
                    print("HARNESS-ERROR property=%s violation %s did not reproduce when replayed from %s (nondeterminism the harness does not own)" % (pid, distinct[0]["key"], p0))
                    return 2
                print("replay of the first violation reproduced it (exit %d)" % rp.returncode)
            except subprocess.TimeoutExpired:
                print("replay confirmation timed out; reporting unconfirmed")
        for v in distinct[:10]:
            p = _replay_file(pid, v)
            print("  %s :: %s" % (v["key"], v["msg"][:400]))
            print("VIOLATION property=%s replay=%s" % (pid, p))
        if len(distinct) > 10:
            print("  (+%d more distinct violation keys, %d violating cases in total)" % (len(distinct) - 10, total.n_violations))
        return 1
    return 0


def _generic_replay(mod, payload):
    if isinstance(payload, dict) and payload.get("kind") == "job":
        job = payload["job"]
        if hasattr(mod, "job_from_json"):
            job = mod.job_from_json(job)
        else:
            job = _tuplify(job)
        status, r, _ = _job_runner_local(mod, job)
        if status == "ok":
            return r
        rr = Result()
        rr.violation("exception:%s:%s" % (r["type"], r["where"]), r["msg"], payload)
        return rr
    raise SystemExit("check has no replay() for this payload")


def _tuplify(x):
    if isinstance(x, list):
        return tuple(_tuplify(v) for v in x)
    return x


def _job_runner_local(mod, job):
    global _MOD
    _MOD = mod
    return _job_runner(job)


def main(argv):
    ap = argparse.ArgumentParser(prog="check")
    ap.add_argument("target", help="C01..C20 | setup | all")
    ap.add_argument("--tier", default=os.environ.get("VERIF_TIER") or "quick", choices=["quick", "thorough"])
    ap.add_argument("--replay", default=None)
    a = ap.parse_args(argv)
    seed = int(os.environ.get("VERIF_SEED", "0") or 0)
    (VERIF / ".scratch").mkdir(exist_ok=True)
    if a.target == "setup":
        from . import env

        return env.setup()
    if a.target == "all":
        rc = 0
        for pid in ALL:
            try:
                rc = max(rc, run_check(pid, a.tier, seed))
            except ModuleNotFoundError as e:
                print("skip %s (%s)" % (pid, e))
        return rc
    pid = a.target.upper()
    return run_check(pid, a.tier, seed, a.replay)
