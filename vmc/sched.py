"""Engine S: cooperative scheduler + virtual `multiprocessing` facade.

The real `_run_stdout_multi_core`, `_worker`, `_writer` of mchap.application.baseclass run as tasks
(threads that only execute while they hold the baton).  Every operation on a shared object
(Queue.put/get, apply_async, AsyncResult.get, close, join) is a scheduling point; `get`/`join`
are disabled while their condition is false.  Runs are replayed from a choice prefix; an
explicit-state search over prefixes (de-duplicated on a canonical key) explores every interleaving."""
import threading
import types


class Deadlock(Exception):
    pass


class Task:
    def __init__(self, sched, fn, args, name):
        self.sched = sched
        self.fn = fn
        self.args = args
        self.name = name
        self.sem = threading.Semaphore(0)
        self.done = False
        self.exc = None
        self.result = None
        self.blocked_on = None
        self.npoints = 0
        self.observed = []  # values this task has read from shared objects (part of the state key)
        self.pool = None  # VPool the task was submitted to (None: the parent)
        self.started = False
        self.thread = threading.Thread(target=self._run, daemon=True)

    def _run(self):
        self.sem.acquire()
        try:
            if self.sched.abort:
                raise SystemExit
            self.result = self.fn(*self.args)
        except SystemExit:
            pass
        except BaseException as e:  # noqa
            self.exc = e
        self.done = True
        self.sched.ctl.release()


class Sched:
    def __init__(self, choices):
        self.tasks = []
        self.ctl = threading.Semaphore(0)
        self.choices = list(choices)
        self.trace = []
        self.current = None
        self.abort = False
        self.queues = []
        self.n_enabled_at_stop = 0
        self.final = False

    def spawn(self, fn, args, name):
        t = Task(self, fn, args, name)
        self.tasks.append(t)
        t.thread.start()
        return t

    def point(self, enabled=None):
        t = self.current
        t.blocked_on = enabled
        t.npoints += 1
        self.ctl.release()
        t.sem.acquire()
        if self.abort:
            raise SystemExit

    def _has_worker(self, t):
        """a pool of n processes runs at most n tasks at a time and hands waiting tasks to free processes in submission order"""
        if t.pool is None or t.started or not t.pool.n:
            return True
        mates = t.pool.ts
        free = t.pool.n - sum(1 for u in mates if u.started and not u.done)
        ahead = sum(1 for u in mates[: mates.index(t)] if not u.started)
        return ahead < free  # dispatched already (its first visible step may come in any order) or still waiting for a process

    def enabled(self):
        return [t for t in self.tasks if not t.done and self._has_worker(t) and (t.blocked_on is None or t.blocked_on())]

    def run(self, main_fn, stop_after=None):
        main = self.spawn(main_fn, (), "main")
        step = 0
        while True:
            en = self.enabled()
            if main.done:
                self.final = True
                break
            if stop_after is not None and step >= stop_after:
                self.n_enabled_at_stop = len(en)
                break
            if not en:
                self._kill()
                raise Deadlock(list(self.trace))
            c = self.choices[step] if step < len(self.choices) else 0
            if c >= len(en):
                self._kill()
                raise RuntimeError("replay divergence: choice %d of %d enabled at step %d" % (c, len(en), step))
            t = en[c]
            t.started = True
            self.trace.append(t.name)
            self.current = t
            step += 1
            t.blocked_on = None
            t.sem.release()
            self.ctl.acquire()
        self.snapshot = tuple((t.name, t.npoints, t.done, type(t.exc).__name__ if t.exc else None, tuple(t.observed)) for t in self.tasks)
        self._kill()
        return main

    def _kill(self):
        self.abort = True
        for t in self.tasks:
            if not t.done:
                t.sem.release()
        for t in self.tasks:
            t.thread.join(timeout=2)


class VQueue:
    def __init__(self, s):
        self.s = s
        self.items = []
        s.queues.append(self)

    def put(self, x):
        self.s.point()
        self.items.append(x)

    def get(self):
        self.s.point(lambda: len(self.items) > 0)
        x = self.items.pop(0)
        self.s.current.observed.append(x)
        return x


def _transportable(t):
    """multiprocessing sends a worker's result / exception to the parent by pickling it; if the parent cannot unpickle it the
    result-handler thread dies and the job never becomes ready (AsyncResult.get() blocks for ever)"""
    import pickle

    if not t.done:
        return False
    if getattr(t, "_transport", None) is None:
        try:
            obj = t.exc if t.exc is not None else t.result
            back = pickle.loads(pickle.dumps(obj))
            if t.exc is not None:
                t.exc_received = back
            t._transport = True
        except BaseException:  # noqa
            t._transport = False
    return t._transport


class VResult:
    def __init__(self, s, t):
        self.s = s
        self.t = t

    def get(self, timeout=None):
        self.s.point(lambda: _transportable(self.t))
        if self.t.exc:
            raise self.t.exc_received
        return self.t.result

    def wait(self, timeout=None):
        self.s.point(lambda: _transportable(self.t))

    def ready(self):
        return self.t.done

    def successful(self):
        return self.t.done and self.t.exc is None


class VPool:
    def __init__(self, s, n):
        self.s = s
        self.n = n
        self.ts = []

    def apply_async(self, fn, args=(), kwds=None):
        t = self.s.spawn(fn, args, "T%d" % len(self.ts))
        t.pool = self
        self.ts.append(t)
        self.s.point()
        return VResult(self.s, t)

    def close(self):
        self.s.point()

    def terminate(self):
        self.s.point()

    def join(self):
        self.s.point(lambda: all(t.done for t in self.ts))

    def __enter__(self):
        return self

    def __exit__(self, *a):
        return False


def virtual_mp(s):
    m = types.SimpleNamespace()
    m.Manager = lambda: types.SimpleNamespace(Queue=lambda: VQueue(s))
    m.Pool = lambda n=None: VPool(s, n)
    m.Queue = lambda: VQueue(s)
    return m


class Out:
    """stand-in for sys.stdout that records who wrote what"""

    def __init__(self, s):
        self.s = s
        self.chunks = []

    def write(self, x):
        self.chunks.append((self.s.current.name if self.s.current else None, x))
        return len(x)

    def flush(self):
        pass


def state_key(s, out):
    return (
        s.snapshot,  # taken before the leftover tasks are aborted
        tuple(tuple(q.items) for q in s.queues),
        tuple(out.chunks),
    )
