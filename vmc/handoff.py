"""Hand-off chains between the layers of a sampler.

A move kernel that is correct in isolation (engine K) still samples the wrong target when a layer above it hands
it the wrong argument: another sample's ploidy, the error array where the lambda array belongs, a scratch buffer
that aliases another one, an allele index beyond the individual's ploidy, a step type that selects the other
kernel.  Every layer (`.py_func` of the jitted body, or the plain-Python method) is executed with the layer *below*
replaced by a recording stub and every random seam owned; all answer sequences are enumerated and the recorded call
sequence is compared with a reference of the documented loop.  Arrays are compared by identity (`is`) where the
layer is documented to pass them through, so transposed keyword arguments show up even when shapes agree.
"""
import itertools
import types

import numpy as np

from .seams import NumpyProxy, patched, explore

SCRATCH = ("dosage", "dosage_p", "dosage_q", "gamete_p", "gamete_q", "constraint_p", "constraint_q", "dosage_log_frequencies")
PASS_PED = ("sample_ploidy", "sample_parents", "gamete_tau", "gamete_lambda", "gamete_error", "sample_read_dists", "sample_read_counts",
            "haplotypes", "log_frequencies")


# ----------------------------------------------------------------------------------------------- pedigree
PEDS = {
    # name: (parents, ploidy)
    "trio+sib+grandchild": ([[-1, -1], [-1, -1], [0, 1], [0, 1], [2, -1]], [2, 4, 2, 4, 2]),
    "two-pairs": ([[-1, -1], [-1, -1], [-1, -1], [0, 1], [1, 2], [1, 0]], [2, 2, 4, 2, 4, 2]),
    "duo-only": ([[-1, -1], [0, -1]], [4, 2]),
    "selfing": ([[-1, -1], [0, 0], [1, 0]], [2, 2, 2]),
    "second-column": ([[-1, -1], [-1, 0], [1, 0]], [2, 4, 6]),
    "progeny-first": ([[2, 3], [3, 2], [-1, -1], [-1, -1], [0, -1]], [2, 4, 2, 2, 2]),  # samples listed youngest first
}


def ref_children(parents):
    n = len(parents)
    ch = [[] for _ in range(n)]
    for i, (p, q) in enumerate(parents):
        if p >= 0:
            ch[p].append(i)
        if q >= 0 and q != p:
            ch[q].append(i)
    return ch


def ref_pairs(parents):
    """unordered parental pairs in order of first appearance, with the union of both parents and all their children"""
    ch = ref_children(parents)
    out = []
    for p, q in parents:
        if p < 0 or q < 0:
            continue
        a, b = min(p, q), max(p, q)
        if any(x[0] == (a, b) for x in out):
            continue
        out.append(((a, b), sorted(set([a, b] + ch[a] + ch[b]))))
    return out


class PedTokens:
    def __init__(self, name):
        parents, ploidy = PEDS[name]
        self.name = name
        n = len(parents)
        self.n = n
        self.maxp = max(ploidy)
        self.tok = dict(
            sample_ploidy=np.array(ploidy, np.int64),
            sample_parents=np.array(parents, np.int64),
            gamete_tau=np.arange(2 * n, dtype=np.int64).reshape(n, 2) + 1,
            gamete_lambda=np.linspace(0.01, 0.02, 2 * n).reshape(n, 2),
            gamete_error=np.linspace(0.11, 0.12, 2 * n).reshape(n, 2),
            sample_read_dists=np.full((n, 1, 1, 2), 0.5),
            sample_read_counts=np.ones((n, 1), np.int64),
            haplotypes=np.array([[0], [1], [0]], np.int8),
            log_frequencies=np.log(np.array([0.5, 0.3, 0.2])),
        )
        g = np.full((n, self.maxp), -1, np.int16)
        for i, p in enumerate(ploidy):
            g[i, :p] = [(i + k) % 3 for k in range(p)]
        self.genotypes = g
        self.parents = parents
        self.ploidy = ploidy

    def flags(self, kw, names=PASS_PED):
        return tuple(n for n in names if kw.get(n, "MISSING") is not self.tok[n])

    def scratch(self):
        d = {n: np.zeros(self.maxp, np.int64) for n in SCRATCH[:-1]}
        d["dosage_log_frequencies"] = np.zeros(self.maxp, np.float64)
        return d


def scratch_faults(kw, maxp):
    """scratch buffers must be distinct objects of at least max-ploidy length (an aliased buffer corrupts the blanket prior)"""
    bad = []
    got = [kw.get(n) for n in SCRATCH]
    for n, a in zip(SCRATCH, got):
        if n not in kw:  # a scratch buffer that no longer exists is a refactoring, not a fault
            continue
        if not isinstance(a, np.ndarray) or a.ndim != 1 or len(a) < maxp:
            bad.append("%s is not a vector of length >= %d" % (n, maxp))
    for (n1, a1), (n2, a2) in itertools.combinations(zip(SCRATCH, got), 2):
        if isinstance(a1, np.ndarray) and isinstance(a2, np.ndarray) and np.shares_memory(a1, a2):
            bad.append("%s and %s share memory" % (n1, n2))
    return bad


def ped_sampler(r, payload, name):
    """mcmc_sampler.py_func: one compound step, then one exchange step per parental pair with its own blanket, per iteration;
    the trace holds the sorted, right-padded genotypes after each iteration."""
    import mchap.pedigree.mcmc as pm

    T = PedTokens(name)
    children = ref_children(T.parents)
    pairs = ref_pairs(T.parents)
    for n_steps, annealing, swap, step_type in ((3, 0, True, 0), (2, 2, True, 1), (2, 1, False, 0)):
        calls = []
        caches = []
        faults = []

        def compound(**kw):
            g = kw["sample_genotypes"]
            calls.append(("compound", g.tolist(), T.flags(kw), int(kw.get("step_type", -9)),
                          [sorted(int(c) for c in row if c >= 0) for row in np.asarray(kw["sample_children"])]))
            caches.append(kw.get("llk_cache"))
            faults.extend(scratch_faults(kw, T.maxp))
            k = sum(1 for c in calls if c[0] == "compound")
            for i, p in enumerate(T.ploidy):  # unsorted content in the first `ploidy` slots only
                g[i, :p] = [(2 - ((i + k + s) % 3)) for s in range(p)]

        def swap_stub(**kw):
            g = kw["sample_genotypes"]
            calls.append(("swap", int(kw["p"]), int(kw["q"]), [int(x) for x in kw["markov_blanket"] if x >= 0], g.tolist(), T.flags(kw)))
            caches.append(kw.get("llk_cache"))
            faults.extend(scratch_faults(kw, T.maxp))
            p = int(kw["p"])
            if p != int(kw["q"]):  # an exchange within one selfed parent is the identity on its multiset: optional, never compared
                g[p, 0] = (g[p, 0] + 1) % 3
            return 0.5, True

        with patched((pm, "compound_step", compound), (pm, "pair_allele_swap_step", swap_stub)):
            trace = pm.mcmc_sampler.py_func(
                sample_genotypes=T.genotypes.copy(), **T.tok, n_steps=n_steps, annealing=annealing, step_type=step_type, swap_parental_alleles=swap)
        # reference loop
        g = T.genotypes.copy()
        want, want_trace = [], []
        for it in range(n_steps):
            want.append(("compound", g.tolist(), (), step_type, [sorted(c) for c in children]))
            k = it + 1
            for i, p in enumerate(T.ploidy):
                g[i, :p] = [(2 - ((i + k + s) % 3)) for s in range(p)]
            if swap:
                for (a, b), blanket in pairs:
                    if a == b:
                        continue
                    want.append(("swap", a, b, blanket, g.tolist(), ()))
                    g[a, 0] = (g[a, 0] + 1) % 3
            want_trace.append([sorted(int(x) for x in g[i, :p]) + [-1] * (T.maxp - p) for i, p in enumerate(T.ploidy)])
        r.evaluations += 1
        r.nontrivial += 1
        r.transitions += len(calls)
        tag = "ped-sampler|%s|steps=%d|anneal=%d|swap=%s|type=%d" % (name, n_steps, annealing, swap, step_type)
        norm = [c for c in calls if not (c[0] == "swap" and c[1] == c[2])]
        if norm != want:
            first = next((i for i, (a, b) in enumerate(zip(norm, want)) if a != b), min(len(norm), len(want)))
            r.violation(tag + "|calls", "call %d is %r, the documented loop expects %r (%d vs %d calls)" % (
                first, norm[first] if first < len(norm) else None, want[first] if first < len(want) else None, len(norm), len(want)), payload)
        if np.asarray(trace).tolist() != want_trace:
            r.violation(tag + "|trace", "trace %r, expected the sorted right-padded genotypes after each iteration %r" % (np.asarray(trace).tolist(), want_trace), payload)
        if any(c is None or c is not caches[0] for c in caches):
            r.violation(tag + "|cache", "the likelihood cache is not one object shared by all sub-steps of a run", payload)
        for f in sorted(set(faults)):
            r.violation(tag + "|scratch", f, payload)
        r.outcome((tag, len(calls)))


def ped_compound(r, payload, name):
    """compound_step.py_func / sample_step.py_func: every individual once, every allele copy of that individual once, for every shuffle answer"""
    import mchap.pedigree.mcmc as pm

    T = PedTokens(name)
    sc = T.scratch()
    children = np.zeros((T.n, 1), np.int64)
    cache = {}
    base = dict(T.tok, sample_children=children, llk_cache=cache, **sc)
    names = PASS_PED + ("sample_children", "llk_cache") + SCRATCH

    def same(kw):
        return tuple(n for n in names if kw.get(n, "MISSING") is not base[n])

    # compound -> sample_step
    g0 = T.genotypes.copy()

    def run_c(o):
        seen = []

        def stub(**kw):
            seen.append((int(kw["target_index"]), kw["sample_genotypes"] is g0, same(kw), int(kw["step_type"])))

        with patched((pm, "np", NumpyProxy(o)), (pm, "sample_step", stub)):
            pm.compound_step.py_func(sample_genotypes=g0, step_type=1, **base)
        return seen

    n = 0
    for o, seen in explore(run_c, perm_mode="all"):
        n += 1
        r.evaluations += 1
        r.transitions += len(seen)
        tag = "ped-compound|%s" % name
        order = [s[0] for s in seen]
        if sorted(order) != list(range(T.n)):
            r.violation(tag + "|visits", "individuals updated in one compound step: %r (each of %d exactly once expected)" % (order, T.n), payload)
        if any((not s[1]) or s[2] or s[3] != 1 for s in seen):
            r.violation(tag + "|args", "sample_step received other objects than compound_step was given: %r" % [s for s in seen if (not s[1]) or s[2] or s[3] != 1][:2], payload)
        r.outcome((tag, tuple(order)))
    r.states += n
    # sample_step -> allele_step, for every individual
    for target in range(T.n):
        P = T.ploidy[target]

        def run_s(o):
            seen = []

            def stub(**kw):
                seen.append((int(kw["target_index"]), int(kw["allele_index"]), kw["sample_genotypes"] is g0, same(kw), int(kw["step_type"])))

            with patched((pm, "np", NumpyProxy(o)), (pm, "allele_step", stub)):
                pm.sample_step.py_func(target_index=target, sample_genotypes=g0, step_type=0, **base)
            return seen

        for o, seen in explore(run_s, perm_mode="all"):
            r.evaluations += 1
            r.nontrivial += 1
            r.transitions += len(seen)
            tag = "ped-sample-step|%s|target=%d|ploidy=%d" % (name, target, P)
            if sorted(s[1] for s in seen) != list(range(P)) or any(s[0] != target for s in seen):
                r.violation(tag + "|visits", "allele copies updated: %r of individual(s) %r (copies 0..%d of individual %d exactly once expected)" % (
                    [s[1] for s in seen], sorted(set(s[0] for s in seen)), P - 1, target), payload)
            if any((not s[2]) or s[3] or s[4] != 0 for s in seen):
                r.violation(tag + "|args", "allele_step received other objects than sample_step was given", payload)
            r.outcome((tag, tuple(s[1] for s in seen)))


def ped_allele(r, payload, name):
    """allele_step.py_func: the step type selects the kernel, the kernel receives the caller's objects, the drawn allele is written to exactly one cell"""
    import mchap.pedigree.mcmc as pm

    T = PedTokens(name)
    sc = T.scratch()
    children = np.zeros((T.n, 1), np.int64)
    cache = {}
    base = dict(T.tok, sample_children=children, llk_cache=cache, **sc)
    names = PASS_PED + ("sample_children", "llk_cache") + SCRATCH
    probs = {"gibbs": np.array([0.2, 0.3, 0.5]), "mh": np.array([0.6, 0.0, 0.4])}
    for target in range(T.n):
        for slot in range(T.ploidy[target]):
            for step_type in (0, 1, 2):
                g0 = T.genotypes.copy()

                def run(o):
                    seen = []
                    g = g0.copy()

                    def mk(kind):
                        def stub(**kw):
                            seen.append((kind, int(kw["target_index"]), int(kw["allele_index"]), kw["sample_genotypes"] is g,
                                         tuple(n for n in names if kw.get(n, "MISSING") is not base[n])))
                            return probs[kind]
                        return stub

                    with patched((pm, "gibbs_probabilities", mk("gibbs")), (pm, "metropolis_hastings_probabilities", mk("mh")), (pm, "random_choice", o.random_choice)):
                        try:
                            pm.allele_step.py_func(target_index=target, allele_index=slot, sample_genotypes=g, step_type=step_type, **base)
                        except ValueError:
                            return seen, g, "ValueError"
                    return seen, g, None

                for o, (seen, g, exc) in explore(run):
                    r.evaluations += 1
                    r.transitions += 1
                    tag = "ped-allele-step|%s|type=%d" % (name, step_type)
                    if step_type == 2:
                        if exc != "ValueError" or not np.array_equal(g, g0):
                            r.violation(tag, "an unknown step type must raise and leave the genotypes untouched", payload)
                        continue
                    kind = "gibbs" if step_type == 0 else "mh"
                    if exc is not None or len(seen) != 1 or seen[0][0] != kind:
                        r.violation(tag + "|kernel", "step type %d called %r (exactly one call of the %s kernel expected)" % (step_type, [s[0] for s in seen], kind), payload)
                        continue
                    s = seen[0]
                    if s[1] != target or s[2] != slot or not s[3] or s[4]:
                        r.violation(tag + "|args", "kernel called for individual %d copy %d (asked: %d, %d); objects not passed through: %r" % (s[1], s[2], target, slot, s[4]), payload)
                    ans = [e for e in o.log if e[0] == "choice_p"]
                    if len(ans) != 1 or list(ans[0][3]) != probs[kind].tolist():
                        r.violation(tag + "|draw", "the allele must be drawn once from the vector the kernel returned", payload)
                        continue
                    want = g0.copy()
                    want[target, slot] = ans[0][2]
                    if not np.array_equal(g, want):
                        r.violation(tag + "|write", "after drawing allele %d for individual %d copy %d the genotypes are %r" % (ans[0][2], target, slot, g.tolist()), payload)
                    r.outcome((tag, target, slot, ans[0][2]))
                r.nontrivial += 1


def ped_fit(r, payload):
    """PedigreeCallingMCMC.fit -> mcmc_sampler: every attribute reaches the keyword it belongs to, once per chain, on the same inputs"""
    import mchap.pedigree.classes as pc

    T = PedTokens("trio+sib+grandchild")
    tok = T.tok
    reads, counts = tok["sample_read_dists"], tok["sample_read_counts"]
    for chains, steps, annealing, stype, swap, freqs, seed in ((1, 4, 0, "Gibbs", True, None, 3), (3, 5, 2, "Metropolis-Hastings", False, np.array([0.5, 0.3, 0.2]), 0)):
        calls, seeds = [], []

        def stub(**kw):
            calls.append(kw)
            k = len(calls)
            return np.full((kw["n_steps"], T.n, T.maxp), k, np.int16)

        inbr = np.linspace(0.0, 0.04, T.n)
        model = pc.PedigreeCallingMCMC(sample_ploidy=tok["sample_ploidy"], sample_inbreeding=inbr, sample_parents=tok["sample_parents"], gamete_tau=tok["gamete_tau"],
                                       gamete_lambda=tok["gamete_lambda"], gamete_error=tok["gamete_error"], haplotypes=tok["haplotypes"], frequencies=freqs, steps=steps,
                                       annealing=annealing, chains=chains, random_seed=seed, step_type=stype, swap_parental_alleles=swap)
        init = T.genotypes.copy()
        with patched((pc, "mcmc_sampler", stub), (pc, "seed_numba", lambda s: seeds.append(("numba", s))),
                     (pc, "np", NumpyProxy(types.SimpleNamespace(seed=lambda s: seeds.append(("numpy", s)))))):
            trace = model.fit(sample_reads=reads, sample_read_counts=counts, initial=init)
        r.evaluations += 1
        r.nontrivial += 1
        tag = "ped-fit|chains=%d|type=%s" % (chains, stype)
        if len(calls) != chains:
            r.violation(tag + "|chains", "%d sampler runs for %d chains" % (len(calls), chains), payload)
        want_logf = np.log(freqs) if freqs is not None else np.log(np.full(3, 1 / 3))
        for kw in calls:
            bad = [n for n, v in (("sample_ploidy", tok["sample_ploidy"]), ("sample_parents", tok["sample_parents"]), ("gamete_tau", tok["gamete_tau"]),
                                  ("gamete_lambda", tok["gamete_lambda"]), ("gamete_error", tok["gamete_error"]), ("haplotypes", tok["haplotypes"]),
                                  ("sample_read_dists", reads), ("sample_read_counts", counts)) if kw.get(n, "MISSING") is not v]
            if not np.array_equal(kw.get("sample_genotypes"), init):
                bad.append("sample_genotypes")
            if not np.allclose(kw.get("log_frequencies", np.nan), want_logf, rtol=1e-12, atol=0):
                bad.append("log_frequencies")
            for n, v in (("n_steps", steps), ("annealing", annealing), ("step_type", 0 if stype == "Gibbs" else 1), ("swap_parental_alleles", swap)):
                if kw.get(n, "MISSING") != v:
                    bad.append(n)
            if bad:
                r.violation(tag + "|args|" + ",".join(bad), "mcmc_sampler received wrong values for %r" % bad, payload)
        if sorted(seeds) != [("numba", seed), ("numpy", seed)]:
            r.violation(tag + "|seed", "both generators must be seeded exactly once with the model's seed %r before the chains run, got %r" % (seed, seeds), payload)
        tr = np.asarray(trace.genotypes)
        if tr.shape != (chains, steps, T.n, T.maxp) or [int(tr[c].flat[0]) for c in range(chains)] != list(range(1, chains + 1)) or trace.n_allele != 3:
            r.violation(tag + "|trace", "the multi-trace must hold the chains in order with n_allele = number of haplotypes", payload)
        r.outcome((tag, len(calls)))


def ped_large_alleles(r, payload):
    """real PedigreeCallingMCMC.fit on a diploid trio with 140 known haplotypes: allele numbers >= 128 must survive the start state, the working state
    and the trace (a narrow integer type wraps them), and the well-supported true genotypes must be the posterior modes"""
    import mchap.pedigree.classes as pc

    rows = list(itertools.product(range(2), repeat=8))[:140]
    haps = np.array(rows, np.int8)
    truth = [(3, 130), (7, 135), (130, 135)]
    e = 0.01
    n = 3
    reads = np.full((n, 2, 8, 2), np.nan)
    counts = np.zeros((n, 2), np.int64)
    for i, g in enumerate(truth):
        for k, a in enumerate(g):
            for j in range(8):
                reads[i, k, j] = [1 - e, e] if rows[a][j] == 0 else [e, 1 - e]
            counts[i, k] = 12
    for stype in ("Gibbs", "Metropolis-Hastings"):
        model = pc.PedigreeCallingMCMC(sample_ploidy=np.array([2, 2, 2]), sample_inbreeding=np.zeros(3), sample_parents=np.array([[-1, -1], [-1, -1], [0, 1]]),
                                       gamete_tau=np.ones((3, 2), np.int64), gamete_lambda=np.zeros((3, 2)), gamete_error=np.full((3, 2), 0.01), haplotypes=haps,
                                       frequencies=None, steps=40 if stype == "Gibbs" else 100, annealing=0, chains=1, random_seed=7, step_type=stype)
        trace = model.fit(sample_reads=reads, sample_read_counts=counts)
        g = np.asarray(trace.genotypes)
        r.evaluations += 1
        r.nontrivial += 1
        r.traces += 1
        tag = "ped-large-alleles|%s" % stype
        if g.min() < 0 or g.max() >= len(haps):
            r.violation(tag + "|range", "the trace holds allele numbers in [%d, %d] for %d haplotypes" % (g.min(), g.max(), len(haps)), payload)
            continue
        last = [tuple(sorted(int(x) for x in g[0, -1, i])) for i in range(n)]
        if stype == "Gibbs" and last != [tuple(sorted(t)) for t in truth]:  # (an MH chain may legitimately still be on its way)
            r.violation(tag + "|mode", "after %d steps on unambiguous reads the genotypes are %r, the reads spell %r" % (g.shape[1], last, truth), payload)
        r.outcome((tag, tuple(last)))


# ----------------------------------------------------------------------------------------------- calling
def call_fit(r, payload):
    """CallingMCMC.fit -> mcmc_sampler"""
    import mchap.calling.classes as cc

    haps = np.array([[0, 0], [0, 1], [1, 1]], np.int8)
    reads = np.full((2, 2, 2), 0.5)
    counts = np.array([2, 1])
    for chains, steps, stype, freqs, F, seed, init in ((1, 4, "Gibbs", None, 0.0, 5, None), (3, 6, "Metropolis-Hastings", np.array([0.5, 0.3, 0.2]), 0.25, 0, np.array([0, 2, 2])),
                                                     (2, 3, "Gibbs", np.array([0.2, 0.2, 0.6]), 0.004, None, None)):
        calls, seeds, greedy = [], [], []

        def stub(**kw):
            calls.append(kw)
            k = len(calls)
            return np.full((kw["n_steps"], 3), k, np.int8), np.full(kw["n_steps"], -float(k))

        gtok = np.array([1, 1, 2])

        def greedy_stub(**kw):
            greedy.append(kw)
            return gtok

        model = cc.CallingMCMC(ploidy=3, haplotypes=haps, frequencies=freqs, inbreeding=F, steps=steps, chains=chains, random_seed=seed, step_type=stype)
        with patched((cc, "mcmc_sampler", stub), (cc, "greedy_caller", greedy_stub), (cc, "seed_numba", lambda s: seeds.append(("numba", s))),
                     (cc, "np", NumpyProxy(types.SimpleNamespace(seed=lambda s: seeds.append(("numpy", s)))))):
            trace = model.fit(reads, read_counts=counts, initial=init)
        r.evaluations += 1
        r.nontrivial += 1
        tag = "call-fit|chains=%d|type=%s|F=%g" % (chains, stype, F)
        if len(calls) != chains:
            r.violation(tag + "|chains", "%d sampler runs for %d chains" % (len(calls), chains), payload)
        for kw in calls:
            bad = [n for n, v in (("haplotypes", haps), ("reads", reads), ("read_counts", counts), ("frequencies", freqs)) if kw.get(n, "MISSING") is not v]
            start = init if init is not None else gtok
            if not np.array_equal(kw.get("genotype_alleles"), start):
                bad.append("genotype_alleles")
            for n, v in (("inbreeding", F), ("n_steps", steps), ("step_type", 0 if stype == "Gibbs" else 1)):
                if kw.get(n, "MISSING") != v:
                    bad.append(n)
            if bad:
                r.violation(tag + "|args|" + ",".join(bad), "mcmc_sampler received wrong values for %r" % bad, payload)
        if init is None:
            if len(greedy) != 1 or greedy[0].get("reads") is not reads or greedy[0].get("read_counts") is not counts or greedy[0].get("ploidy") != 3 or greedy[0].get("haplotypes") is not haps:
                r.violation(tag + "|initial", "the initial genotype must come from one greedy call on this sample's reads, counts, ploidy and haplotypes", payload)
        want_seeds = [] if seed is None else [("numba", seed), ("numpy", seed)]
        if sorted(seeds) != want_seeds:
            r.violation(tag + "|seed", "generators seeded %r, expected %r" % (seeds, want_seeds), payload)
        tr, ll = np.asarray(trace.genotypes), np.asarray(trace.llks)
        if tr.shape != (chains, steps, 3) or ll.shape != (chains, steps) or [int(tr[c].flat[0]) for c in range(chains)] != list(range(1, chains + 1)) or \
                [float(ll[c].flat[0]) for c in range(chains)] != [-float(k) for k in range(1, chains + 1)] or trace.n_allele != 3:
            r.violation(tag + "|trace", "the multi-trace must hold the chains' genotypes and likelihoods in order", payload)
        r.outcome((tag, len(calls)))


def call_sampler(r, payload):
    """calling mcmc_sampler.py_func -> compound_step: n_steps in-place updates of one genotype, trace = state and returned llk after each"""
    import mchap.calling.mcmc as cm

    haps = np.array([[0, 0], [0, 1], [1, 1]], np.int8)
    reads = np.full((2, 2, 2), 0.5)
    counts = np.array([2, 1])
    freqs = np.array([0.5, 0.3, 0.2])
    for n_steps, cache, stype, fr in ((3, True, 0, freqs), (4, False, 1, None), (1, True, 1, freqs)):
        calls = []
        init = np.array([2, 0, 1])
        keep = init.copy()

        def stub(**kw):
            g = kw["genotype_alleles"]
            calls.append((g.tolist(), kw.get("haplotypes") is haps, kw.get("reads") is reads, kw.get("read_counts") is counts, kw.get("inbreeding"), kw.get("frequencies") is fr,
                          kw.get("step_type"), kw.get("llk_cache")))
            g[:] = (g + 1) % 3
            return -1.5 * len(calls)

        with patched((cm, "compound_step", stub)):
            gt, lt = cm.mcmc_sampler.py_func(genotype_alleles=init, haplotypes=haps, reads=reads, read_counts=counts, inbreeding=0.125, frequencies=fr, n_steps=n_steps,
                                             cache=cache, step_type=stype)
        r.evaluations += 1
        r.nontrivial += 1
        r.transitions += len(calls)
        tag = "call-sampler|steps=%d|cache=%s|type=%d" % (n_steps, cache, stype)
        want_states = [((keep + k) % 3).tolist() for k in range(n_steps + 1)]
        if [c[0] for c in calls] != want_states[:-1] or np.asarray(gt).tolist() != want_states[1:] or np.asarray(lt).tolist() != [-1.5 * (k + 1) for k in range(n_steps)]:
            r.violation(tag + "|loop", "compound_step must be applied n_steps times to one evolving genotype and the trace must record the state and the returned likelihood after each", payload)
        if any(not (c[1] and c[2] and c[3] and c[5]) or c[4] != 0.125 or c[6] != stype for c in calls):
            r.violation(tag + "|args", "compound_step received other values than mcmc_sampler was given", payload)
        cs = [c[7] for c in calls]
        if cache and (any(c is None or c is not cs[0] for c in cs)):
            r.violation(tag + "|cache", "cache=True must share one cache over all steps", payload)
        if not cache and any(c is not None for c in cs):
            r.violation(tag + "|cache", "cache=False must not create a cache", payload)
        if not np.array_equal(init, keep):
            r.violation(tag + "|input", "the initial genotype passed in was modified (the next chain would start elsewhere)", payload)
        r.outcome((tag, len(calls)))


# ----------------------------------------------------------------------------------------------- assemble
def asm_fit(r, payload):
    """DenovoMCMC.fit / _mcmc -> _denovo_assembler: attributes reach their keywords; only the non-fixed columns of reads and n_alleles are passed"""
    import mchap.assemble.mcmc as am

    # 3 SNVs; SNV 1 is homozygous in every read (fixed when the threshold allows it)
    reads = np.array([
        [[0.9, 0.1, 0.0], [0.999, 0.0005, 0.0005], [0.1, 0.9, 0.0]],
        [[0.1, 0.9, 0.0], [0.999, 0.0005, 0.0005], [0.9, 0.1, 0.0]],
        [[0.9, 0.1, 0.0], [0.999, 0.0005, 0.0005], [0.9, 0.1, 0.0]],
    ])
    counts = np.array([3, 2, 4])
    n_alleles = [2, 3, 2]
    all_reads, all_counts = reads, counts
    for chains, steps, fix, F, temps, probs, thr, seed, nrow in ((1, 3, 0.999, 0.0, (1.0,), (0.5, 0.25, 1.0), 100, 11, 3), (3, 2, 0.5, 0.125, (1.0, 0.25, 0.5), (0.0, 1.0, 0.75), -1, 0, 3),
                                                                (2, 2, 1.0, 0.004, (0.1, 1.0), (1.0, 0.0, 0.0), 7, None, 3),
                                                                # a single distinct read with a count (what de-duplication leaves of a clean homozygous sample), fixing off / on
                                                                (1, 2, 2.0, 0.0, (1.0,), (0.5, 0.5, 0.5), 100, 3, 1), (2, 2, 0.9, 0.1, (0.5, 1.0), (0.5, 0.5, 0.5), 100, 3, 1)):
        reads, counts = all_reads[:nrow], all_counts[:nrow]
        calls, seeds = [], []

        def stub(**kw):
            calls.append(kw)
            k = len(calls)
            g = np.full((1, kw["steps"]) + kw["genotype"].shape, k, np.int8)
            return g, np.full((1, kw["steps"]), -float(k))

        model = am.DenovoMCMC(ploidy=2, n_alleles=n_alleles, inbreeding=F, steps=steps, chains=chains, fix_homozygous=fix, recombination_step_probability=probs[0],
                              partial_dosage_step_probability=probs[1], dosage_step_probability=probs[2], temperatures=temps, random_seed=seed, llk_cache_threshold=thr)
        hom = am._homozygosity_probabilities(reads, np.array(n_alleles, np.int8), 2, inbreeding=F, read_counts=counts)
        fixed = (hom >= fix).any(axis=-1)
        with patched((am, "_denovo_assembler", stub), (am, "seed_numba", lambda s: seeds.append(("numba", s)))):
            import numpy.random as npr
            real_seed = npr.seed
            npr.seed = lambda s=None: seeds.append(("numpy", s))
            try:
                trace = model.fit(reads, read_counts=counts)
            finally:
                npr.seed = real_seed
        r.evaluations += 1
        r.nontrivial += 1
        tag = "asm-fit|chains=%d|fix=%g|F=%g|rows=%d" % (chains, fix, F, nrow)
        if fixed.all():
            r.note("asm-fit: all SNVs fixed for fix=%g" % fix)
        if len(calls) != (0 if fixed.all() else chains):
            r.violation(tag + "|chains", "%d assembler runs for %d chains" % (len(calls), chains), payload)
        for kw in calls:
            bad = []
            if not np.array_equal(kw.get("reads"), reads[:, ~fixed], equal_nan=True):
                bad.append("reads")
            if kw.get("read_counts", "MISSING") is not counts:
                bad.append("read_counts")
            if np.asarray(kw.get("n_alleles")).tolist() != [a for a, f in zip(n_alleles, fixed) if not f]:
                bad.append("n_alleles")
            if np.asarray(kw.get("temperatures")).tolist() != sorted(temps):
                bad.append("temperatures")
            g = np.asarray(kw.get("genotype"))
            if g.shape != (2, int((~fixed).sum())):
                bad.append("genotype")
            bd = np.asarray(kw.get("break_dist", []), float)
            if len(bd) != int((~fixed).sum()) or abs(bd.sum() - 1) > 1e-9 or (bd < 0).any():
                bad.append("break_dist")
            for n, v in (("inbreeding", F), ("steps", steps), ("recombination_step_probability", probs[0]), ("partial_dosage_step_probability", probs[1]),
                         ("dosage_step_probability", probs[2]), ("llk_cache_threshold", thr), ("return_heated_trace", False)):
                if kw.get(n, "MISSING") != v:
                    bad.append(n)
            if bad:
                r.violation(tag + "|args|" + ",".join(bad), "_denovo_assembler received wrong values for %r" % bad, payload)
        want_seeds = [] if seed is None else [("numba", seed), ("numpy", seed)]
        if sorted(seeds, key=str) != sorted(want_seeds, key=str):
            r.violation(tag + "|seed", "generators seeded %r, expected %r" % (seeds, want_seeds), payload)
        tr = np.asarray(trace.genotypes)
        if tr.shape != (chains, steps, 2, 3):
            r.violation(tag + "|trace", "trace shape %r" % (tr.shape,), payload)
        elif not fixed.all():
            for c in range(chains):
                if not (tr[c][:, :, ~fixed] == c + 1).all() or not (tr[c][:, :, fixed] == 0).all() or not (np.asarray(trace.llks)[c] == -(c + 1.0)).all():
                    r.violation(tag + "|trace", "chain %d of the multi-trace is not the %d-th assembler result with the fixed columns re-inserted" % (c, c + 1), payload)
        r.outcome((tag, len(calls), tuple(fixed.tolist())))


def asm_compound(r, payload):
    """assemble: mutation.compound_step -> base_step and structural.compound_step -> interval_step.  Each sub-step must receive the caller's reads, counts,
    inbreeding, temperature and haplotype-space size unchanged, the likelihood and the cache returned by the previous sub-step, and the genotype object itself
    (updated in place); the step returns what the last sub-step returned.  (Which sites / intervals are visited is C15's subject.)"""
    from mchap.assemble import mutation, structural

    reads = np.full((2, 3, 3), 0.25)
    counts = np.array([2, 5])
    F, T, luh = 0.375, 0.625, 2.5
    n_alleles = np.array([2, 3, 2], np.int8)
    for kind in ("mutation", "recombination", "dosage"):
        for use_cache in (False, True):
            g = np.zeros((2, 3), np.int8)
            cache0 = ("cache", 0) if use_cache else None

            def run(o):
                calls = []

                def sub(**kw):
                    k = len(calls)
                    calls.append(kw)
                    return -10.0 - k, (("cache", k + 1) if use_cache else None)

                if kind == "mutation":
                    with patched((mutation, "np", NumpyProxy(o)), (mutation, "base_step", sub)):
                        out = mutation.compound_step.py_func(genotype=g, reads=reads, llk=-3.5, n_alleles=n_alleles, log_unique_haplotypes=luh, inbreeding=F, temp=T,
                                                             read_counts=counts, cache=cache0)
                else:
                    iv = np.array([[0, 1], [1, 3]])
                    with patched((structural, "np", NumpyProxy(o)), (structural, "interval_step", sub)):
                        out = structural.compound_step.py_func(genotype=g, reads=reads, llk=-3.5, intervals=iv, log_unique_haplotypes=luh, inbreeding=F,
                                                               step_type=0 if kind == "recombination" else 1, randomize=True, temp=T, read_counts=counts, cache=cache0)
                return calls, out

            n = 0
            for o, (calls, out) in explore(run, perm_mode="two"):
                n += 1
                r.evaluations += 1
                r.transitions += len(calls)
                tag = "asm-compound|%s|cache=%s" % (kind, use_cache)
                want_n = 6 if kind == "mutation" else 2
                if len(calls) != want_n:
                    r.violation(tag + "|count", "%d sub-steps, expected %d" % (len(calls), want_n), payload)
                    continue
                bad = set()
                for k, kw in enumerate(calls):
                    if kw.get("genotype") is not g:
                        bad.add("genotype")
                    if kw.get("reads") is not reads:
                        bad.add("reads")
                    if kw.get("read_counts", "MISSING") is not counts:
                        bad.add("read_counts")
                    for name, v in (("inbreeding", F), ("temp", T), ("log_unique_haplotypes", luh), ("llk", -3.5 if k == 0 else -10.0 - (k - 1)),
                                    ("cache", cache0 if k == 0 else (("cache", k) if use_cache else None))):
                        if kw.get(name, "MISSING") != v:
                            bad.add(name)
                    if kind != "mutation" and kw.get("step_type", "MISSING") != (0 if kind == "recombination" else 1):
                        bad.add("step_type")
                    if kind == "mutation" and ("j" not in kw or kw.get("n_alleles", "MISSING") != n_alleles[int(kw["j"])]):
                        bad.add("n_alleles")
                if bad:
                    r.violation(tag + "|args|" + ",".join(sorted(bad)), "sub-steps received other values than the compound step was given for %r" % sorted(bad), payload)
                if out != (-10.0 - (want_n - 1), (("cache", want_n) if use_cache else None)):
                    r.violation(tag + "|return", "the compound step returned %r, its last sub-step returned %r" % (out, (-10.0 - (want_n - 1), ("cache", want_n) if use_cache else None)), payload)
                r.outcome((tag, n))
            r.nontrivial += 1
