"""C20  atomize emits the per-SNV projection of every haplotype record."""
import contextlib
import io
import itertools
import os

import numpy as np

from ..result import Result
from .. import env, stddata, synth, vcfparse

META = {
    "level": "exploration",
    "rule": "generated haplotype VCFs: REF AAA x every ordered set of <= 2 ALTs over {A,C}^3 x every SNVPOS superset of the polymorphic columns (monomorphic sites) "
    "x 2 samples of ploidy 2 and 3 x every GT over listed alleles and '.' x optional fields {ACP, AFP, none} x SNVDP on/off; plus every haplotype VCF the standard "
    "pipeline produces (assemble at three thresholds, call, call-exact); each output line is compared with an independent per-site projection; "
    "non-trivial = record with >= 1 ALT and >= 1 SNV",
    "bound": {"quick": "all 50 ALT lists x supersets x all sample-1 GTs x every 2nd sample-2 GT x 3 field layouts (26k records, 70k output lines); 5 pipeline VCFs x 2 field layouts",
              "thorough": "all sample-2 GTs; REF ACA added"},
    "assumptions": ["a site without an alternative base may be omitted or emitted with ALT '.'", "printed floats: |printed - exact| <= 0.0005"],
    "trusted_base": ["vmc/vcfparse.py"],
}

HDR = """##fileformat=VCFv4.3
##contig=<ID=chr1,length=100>
##INFO=<ID=SNVPOS,Number=.,Type=Integer,Description="x">
##INFO=<ID=END,Number=1,Type=Integer,Description="x">
##FORMAT=<ID=GT,Number=1,Type=String,Description="x">
##FORMAT=<ID=SQ,Number=1,Type=Integer,Description="x">
##FORMAT=<ID=ACP,Number=R,Type=Float,Description="x">
##FORMAT=<ID=AFP,Number=R,Type=Float,Description="x">
##FORMAT=<ID=SNVDP,Number=.,Type=Integer,Description="x">
#CHROM	POS	ID	REF	ALT	QUAL	FILTER	INFO	FORMAT	Sz	Sa
"""


def warm(tier):
    env.quiet()
    from mchap.application import atomize  # noqa

    env.quiet()


def plan(tier, seed):
    jobs = []
    refs = ["AAA"] + (["ACA"] if tier == "thorough" else [])
    for ref in refs:
        for ch in range(48):
            jobs.append(("gen", ref, ch, 48, 1 if tier == "thorough" else 2, 3000))
    for ch in range(16):
        jobs.append(("multi", ch, 16, 2500))
    for src in ("assemble-0.2", "assemble-0.9", "assemble-1.0", "call", "call-exact"):
        jobs.append(("pipe", src, seed, 20000))
    jobs.sort(key=lambda j: -j[-1])
    return jobs


def run_job(job):
    env.quiet()
    return {"gen": job_gen, "pipe": job_pipe, "multi": job_multi}[job[0]](job)


def run_atomize(path):
    from mchap.application.atomize import atomize_vcf

    buf = io.StringIO()
    with env.app_warnings():
        with contextlib.redirect_stdout(buf):
            atomize_vcf(path)
    return buf.getvalue()


def fmtf(x):
    s = ("%.3f" % round(x, 3)).rstrip("0").rstrip(".")
    return "0" if s in ("-0", "") else s


def close(txt, val):
    if val is None or val != val:
        return txt == "."
    if txt == ".":
        return False
    try:
        return abs(float(txt) - val) <= 0.0005 + 1e-9
    except ValueError:
        return False


def project(rec, samples):
    """independent per-site projection of one parsed haplotype record -> list of expected site dicts"""
    snv = rec["info"].get("SNVPOS")
    if snv in (None, ["."]):
        return []
    snv = [int(x) for x in snv]
    seqs = [rec["ref"]] + rec["alt"]
    out = []
    for k, p in enumerate(snv):
        chars = []
        for s in seqs:
            if s[p - 1] not in chars:
                chars.append(s[p - 1])
        site = dict(pos=rec["pos"] + p - 1, ref=chars[0], alts=chars[1:], index=k, gts=[], ac=[0] * len(chars), ds=[], acp_tot=[0.0] * len(chars), dp=[], any_acp=True)
        for smp in rec["samples"]:
            gt = [None if a == "." else int(a) for a in vcfparse.gt_alleles(smp["GT"])]
            P = len(gt)
            site["gts"].append("|".join("." if a is None else str(chars.index(seqs[a][p - 1])) for a in gt))
            for a in gt:
                if a is not None:
                    site["ac"][chars.index(seqs[a][p - 1])] += 1
            counts = None
            if smp.get("ACP") not in (None, "."):
                counts = [vcfparse.num(x) for x in smp["ACP"].split(",")]
            elif smp.get("AFP") not in (None, "."):
                counts = [vcfparse.num(x) * P for x in smp["AFP"].split(",")]
            if counts is None or len(counts) != len(seqs) or any(c != c for c in counts):
                site["ds"].append(None)
                site["any_acp"] = False
            else:
                m = [0.0] * len(chars)
                for h, c in enumerate(counts):
                    m[chars.index(seqs[h][p - 1])] += c
                tot = sum(m)
                if tot == 0:
                    site["ds"].append(None)
                    site["any_acp"] = False
                else:
                    m = [x / tot * P for x in m]
                    site["ds"].append(m)
                    for i, x in enumerate(m):
                        site["acp_tot"][i] += x
            dp = smp.get("SNVDP")
            if dp in (None, "."):
                site["dp"].append(None)
            else:
                toks = dp.split(",")
                site["dp"].append(None if k >= len(toks) or toks[k] == "." else float(toks[k]))
        out.append(site)
    return out


def compare(r, payload, tagp, in_text, out_text, key):
    ih, isamples, irecs = vcfparse.parse(in_text)
    oh, osamples, orecs = vcfparse.parse(out_text)
    if osamples != isamples:
        r.violation("%s-samples" % key, "output samples %r, input %r (%s)" % (osamples, isamples, tagp), payload)
        return
    want = []
    for rec in irecs:
        for site in project(rec, isamples):
            site["ps"] = rec["pos"]
            site["chrom"] = rec["chrom"]
            site["src"] = rec["id"]
            want.append(site)
    got = list(orecs)
    gi = 0
    for site in want:
        o = got[gi] if gi < len(got) else None
        match = o is not None and (o["chrom"], o["pos"]) == (site["chrom"], site["pos"]) and o["info"].get("PS") == [str(site["ps"])]
        tag = "%s|%s:%d (record %s at %d)" % (tagp, site["chrom"], site["pos"], site["src"], site["ps"])
        if not match:
            if site["alts"]:
                r.violation("%s-missing-site" % key, "no output line for SNV %s:%d of the haplotype record; next output line %r (%s)" % (
                    site["chrom"], site["pos"], None if o is None else (o["chrom"], o["pos"], o["info"].get("PS")), tag), payload)
            continue  # a monomorphic site may be omitted
        gi += 1
        r.transitions += 1
        if o["ref"] != site["ref"] or o["alt"] != site["alts"]:
            r.violation("%s-alleles" % key, "REF/ALT %s/%r, bases of the listed haplotypes at the site by first appearance %s/%r (%s)" % (o["ref"], o["alt"], site["ref"], site["alts"], tag), payload)
            continue
        for rule, detail in vcfparse.check_record(oh, osamples, o):
            if rule in ("GT-order",):
                continue  # phased site genotypes keep the haplotype order
            r.violation("%s-wellformed|%s" % (key, rule), "%s (%s)" % (detail, tag), payload)
        for si, smp in enumerate(o["samples"]):
            if smp["GT"] != site["gts"][si]:
                r.violation("%s-gt" % key, "sample %s site GT %s, projection of the haplotype GT %s (%s)" % (osamples[si], smp["GT"], site["gts"][si], tag), payload)
            ds = site["ds"][si]
            toks = smp.get("DS", ".").split(",")
            if not site["alts"]:
                ok = all(t == "." for t in toks)
            elif ds is None:
                ok = all(t == "." for t in toks) and len(toks) in (1, len(site["alts"]))
            else:
                ok = len(toks) == len(site["alts"]) and all(close(t, v) for t, v in zip(toks, ds[1:]))
            if not ok:
                r.violation("%s-ds" % key, "sample %s DS %r, marginalised posterior counts %r (%s)" % (osamples[si], smp.get("DS"), None if ds is None else [round(x, 4) for x in ds[1:]], tag), payload)
            dp = site["dp"][si]
            if not close(smp.get("DP", "."), dp):
                r.violation("%s-dp" % key, "sample %s DP %r, SNVDP of the site %r (%s)" % (osamples[si], smp.get("DP"), dp, tag), payload)
        ac = o["info"].get("AC")
        if site["alts"]:
            if ac is None or len(ac) != len(site["alts"]) or not all(close(t, float(v)) for t, v in zip(ac, site["ac"][1:])):
                r.violation("%s-ac" % key, "INFO/AC %r, allele counts of the GTs at the site %r (%s)" % (ac, site["ac"][1:], tag), payload)
        elif ac not in (None, ["."]):
            r.violation("%s-ac" % key, "INFO/AC %r at a site without ALT (%s)" % (ac, tag), payload)
        acp = o["info"].get("ACP")
        if site["any_acp"]:
            if acp is None or len(acp) != len(site["acp_tot"]) or not all(close(t, v) for t, v in zip(acp, site["acp_tot"])):
                r.violation("%s-acp" % key, "INFO/ACP %r, summed marginal posterior counts %r (%s)" % (acp, [round(x, 4) for x in site["acp_tot"]], tag), payload)
        elif acp is not None and not all(t == "." for t in acp) and any(d is None for d in site["ds"]):
            r.violation("%s-acp" % key, "INFO/ACP %r although a sample has no posterior counts (%s)" % (acp, tag), payload)
        dps = site["dp"]
        idp = o["info"].get("DP")
        if all(d is not None for d in dps):
            if idp is None or not close(idp[0], sum(dps)):
                r.violation("%s-info-dp" % key, "INFO/DP %r, summed SNVDP %r (%s)" % (idp, sum(dps), tag), payload)
    if gi != len(got):
        r.violation("%s-extra-lines" % key, "%d output lines do not correspond to an SNV of an input record, first %r (%s)" % (len(got) - gi, (got[gi]["chrom"], got[gi]["pos"]), tagp), payload)


def job_gen(job):
    _, ref, ch, nch, stride2, _ = job
    r = Result()
    payload = {"kind": "job", "job": job}
    d = env.scratch_dir("c20")
    pool = ["".join(t) for t in itertools.product("AC", repeat=3) if "".join(t) != ref and all(x in "AC" for x in t)]
    if ref == "ACA":
        pool = [p for p in pool]
    k = -1
    for n_alt in (0, 1, 2):
        for alts in itertools.permutations(pool, n_alt):
            seqs = (ref,) + alts
            poly = [i for i in range(3) if len({s[i] for s in seqs}) > 1]
            supersets = [sp for rr in range(len(poly), 4) for sp in itertools.combinations(range(3), rr) if set(poly) <= set(sp)]
            nal = len(seqs)
            g1s = list(itertools.combinations_with_replacement(list(range(nal)) + [None], 2))
            g2s = list(itertools.combinations_with_replacement(list(range(nal)) + [None], 3))[::stride2]
            for snv in supersets:
                k += 1
                if k % nch != ch:
                    continue
                for layout in ("ACP", "AFP", "none"):
                    for with_dp in ((True, False) if layout == "ACP" else (True,)):
                        lines = []
                        for g1 in g1s:
                            for g2 in g2s:
                                cols = []
                                for g in (g1, g2):
                                    P = len(g)
                                    gs = sorted(a for a in g if a is not None) + [None] * sum(a is None for a in g)
                                    gt = "/".join("." if a is None else str(a) for a in gs)
                                    acp = [sum(1.0 for a in g if a == i) for i in range(nal)]
                                    miss = sum(a is None for a in g)
                                    acp = [x + miss / nal for x in acp]
                                    f = [gt, "30"]
                                    if layout == "ACP":
                                        f.append(",".join(fmtf(x) for x in acp))
                                    elif layout == "AFP":
                                        f.append(",".join(fmtf(x / P) for x in acp))
                                    if with_dp:
                                        f.append(",".join(str(5 + j) for j in range(len(snv))) if snv else ".")
                                    cols.append(":".join(f))
                                fmt = "GT:SQ" + ("" if layout == "none" else ":" + layout) + (":SNVDP" if with_dp else "")
                                info = "END=13;SNVPOS=" + (",".join(str(i + 1) for i in snv) if snv else ".")
                                lines.append("chr1\t%d\tr%d\t%s\t%s\t.\tPASS\t%s\t%s\t%s\t%s" % (11 + 10 * 0, len(lines), ref, ",".join(alts) if alts else ".", info, fmt, cols[0], cols[1]))
                        text = HDR + "\n".join(lines) + "\n"
                        p = os.path.join(str(d), "t.vcf")
                        with open(p, "w") as f:
                            f.write(text)
                        tagp = "REF=%s|ALT=%s|SNVPOS=%s|fields=%s%s" % (ref, ",".join(alts) or ".", [i + 1 for i in snv], layout, "+SNVDP" if with_dp else "")
                        r.evaluations += len(lines)
                        r.states += len(lines)
                        if alts and snv:
                            r.nontrivial += len(lines)
                        try:
                            out = run_atomize(p)
                        except Exception as e:  # noqa
                            r.violation("gen-exception|%s" % type(e).__name__, "atomize aborted: %s: %s (%s)" % (type(e).__name__, str(e)[:150], tagp), payload)
                            env.quiet()
                            continue
                        env.quiet()
                        compare(r, payload, tagp, text, out, "gen")
                        r.outcome((ref, alts, snv, layout, with_dp))
                        if not r.samples and len(alts) == 2 and len(snv) >= 2 and layout == "ACP":
                            r.sample({"input_record": lines[len(lines) // 2], "atomize_lines": [l for l in out.splitlines() if not l.startswith("#")][2 * len(snv) * (len(lines) // 2) // 2:][:len(snv)]})
    r.sample({"generated": "REF=%s chunk %d/%d" % (ref, ch, nch), "records": r.evaluations}, cap=1)
    return r


def job_multi(job):
    """multi-allelic sites: up to 4 bases per site in every first-appearance order (REF G/A/C..., 3 ALTs), mixed ploidy, ACP present"""
    _, ch, nch, _ = job
    r = Result()
    payload = {"kind": "job", "job": job}
    d = env.scratch_dir("c20m")
    k = -1
    for ref in ("GA", "AC", "TG"):
        pool = [a + b for a in "ACGT" for b in "ACGT" if a + b != ref and (a != ref[0] or b == ref[1] or True)]
        pool = [x for x in pool if x[0] != ref[0]][:9] + [ref[0] + b for b in "ACGT" if b != ref[1]][:2]
        for alts in itertools.permutations(pool[:7], 3):
            k += 1
            if k % nch != ch:
                continue
            seqs = (ref,) + alts
            nal = 4
            lines = []
            gts = [(0, 1), (2, 3), (1, 1), (3, None), (0, 2)]
            gts3 = [(0, 1, 2), (3, 3, 1), (2, 2, None), (0, 0, 3)]
            for g1 in gts:
                for g2 in gts3:
                    cols = []
                    for g in (g1, g2):
                        P = len(g)
                        gs = sorted(a for a in g if a is not None) + [None] * sum(a is None for a in g)
                        gt = "/".join("." if a is None else str(a) for a in gs)
                        acp = [sum(1.0 for a in g if a == i) for i in range(nal)]
                        miss = sum(a is None for a in g)
                        acp = [x + miss / nal for x in acp]
                        cols.append(":".join([gt, "30", ",".join(fmtf(x) for x in acp), "7,9"]))
                    lines.append("chr1\t11\tm%d\t%s\t%s\t.\tPASS\tEND=12;SNVPOS=1,2\tGT:SQ:ACP:SNVDP\t%s\t%s" % (len(lines), ref, ",".join(alts), cols[0], cols[1]))
            text = HDR + "\n".join(lines) + "\n"
            p = os.path.join(str(d), "m.vcf")
            with open(p, "w") as f:
                f.write(text)
            tagp = "multi|REF=%s|ALT=%s" % (ref, ",".join(alts))
            r.evaluations += len(lines)
            r.states += len(lines)
            r.nontrivial += len(lines)
            try:
                out = run_atomize(p)
            except Exception as e:  # noqa
                r.violation("multi-exception|%s" % type(e).__name__, "atomize aborted: %s: %s (%s)" % (type(e).__name__, str(e)[:150], tagp), payload)
                env.quiet()
                continue
            env.quiet()
            compare(r, payload, tagp, text, out, "multi")
            r.outcome((ref, alts))
    r.sample({"multi_allelic": "REF in {GA, AC, TG}, every ordered triple of ALTs from a 7-string pool", "chunk": ch})
    return r


def job_pipe(job):
    import pysam

    _, src, seed, _ = job
    r = Result()
    payload = {"kind": "job", "job": job}
    d = env.scratch_dir("c20p")
    D = stddata.Data(d)
    report = ["ACP", "AFP", "SNVDP", "GP"]
    if src.startswith("assemble"):
        text = stddata.run(D.assemble_args(report=report, extra=["--haplotype-posterior-threshold", src.split("-")[1]]))
    else:
        asm = stddata.run(D.assemble_args())
        hv = D.save_vcf(asm, "asm.vcf")
        text = stddata.run(D.call_args(src, hv, report=report))
    env.quiet()
    variants = [("full", text)]
    # the same records without the optional posterior / depth fields
    stripped = stddata.run(D.assemble_args(extra=["--haplotype-posterior-threshold", src.split("-")[1]])) if src.startswith("assemble") else stddata.run(D.call_args(src, hv))
    env.quiet()
    variants.append(("default-fields", stripped))
    for name, txt in variants:
        p = os.path.join(D.dir, "in_%s.vcf" % name)
        with open(p, "w") as f:
            f.write(txt)
        tagp = "pipeline|%s|%s" % (src, name)
        n = len(stddata.records(txt))
        r.evaluations += n
        r.states += n
        r.nontrivial += n
        try:
            out = run_atomize(p)
        except Exception as e:  # noqa
            r.violation("pipe-exception|%s|%s" % (src, type(e).__name__), "atomize aborted on %s output: %s: %s" % (src, type(e).__name__, str(e)[:200]), payload)
            env.quiet()
            continue
        env.quiet()
        compare(r, payload, tagp, txt, out, "pipe")
        po = os.path.join(D.dir, "out_%s.vcf" % name)
        with open(po, "w") as f:
            f.write(out)
        try:
            with pysam.VariantFile(po) as vf:
                sum(1 for _ in vf)
        except Exception as e:  # noqa
            r.violation("pipe-pysam|%s" % src, "pysam cannot read the atomize output: %s" % e, payload)
        r.outcome((src, name, len(stddata.records(out))))
    r.sample({"pipeline_source": src, "input_records": len(stddata.records(text))})
    return r
