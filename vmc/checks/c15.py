"""C15  Each iteration sweeps every site once; intervals partition; fixed sites restored."""
import itertools
import math

import numpy as np

from ..result import Result
from .. import refmodel as ref
from ..seams import Oracle, NumpyProxy, patched, explore

META = {
    "level": "model_checking",
    "rule": "sweep: mutation/structural compound_step bodies (py_func) with the per-site move replaced by a recorder and the shuffle owned, for every "
    "(ploidy, n_SNV) in the bound; random_breaks: DFS over every answer of np.random.choice (states = break sets chosen so far); fixed sites: "
    "DenovoMCMC._mcmc with the assembler replaced by a recorder, for every homozygosity matrix with entries in {0, thr-eps, thr, 1} and, with the real "
    "single-SNV screen, for every small read multiset with counts; non-trivial = n_SNV >= 2",
    "bound": {"quick": "sweep: P in {1,2,4,8} x n in {1..10,126..131,200,255..258,400} (int8 genotypes as the assembler passes them), all shuffle answers when P*n<=6; "
                       "breaks: all n<=9, breaks<n; fixed sites: n<=3 SNVs (matrix), <=2 SNVs x <=3 distinct reads x counts {1,3,9} (real screen)",
              "thorough": "n<=4 SNVs matrices; breaks n<=10"},
    "assumptions": ["thresholds > 0.5 only (below that two alleles of one SNV can both qualify and 'the correct allele' is undefined)",
                    "cases where a single-SNV posterior is within 1e-9 of the threshold are skipped (counted)"],
    "trusted_base": ["vmc/refmodel (single-SNV posterior)", "numba py_func == dispatcher source"],
}

SWEEP_N = list(range(1, 11)) + [126, 127, 128, 129, 130, 131, 200, 255, 256, 257, 258, 400]


def warm(tier):
    from mchap.assemble import mutation, structural
    from mchap.assemble.mcmc import DenovoMCMC, _homozygosity_probabilities
    from mchap.jitutils import seed_numba

    g = np.zeros((2, 3), np.int8)
    reads = np.full((1, 3, 2), 0.5)
    mutation.compound_step(g, reads, 0.0, np.array([2, 2, 2], np.int8), math.log(8.0))
    structural.random_breaks(1, 3)
    _homozygosity_probabilities(reads, np.array([2, 2, 2], np.int8), 2, 0.0, np.array([1]))
    _homozygosity_probabilities(reads, np.array([2, 2, 2], np.int8), 2, 0.0, None)
    seed_numba(1)


def plan(tier, seed):
    jobs = []
    for P in (1, 2, 4, 8):
        jobs.append(("sweep", P, 3000 * P))
    jobs.append(("sweepjit", seed, 20000))
    jobs.append(("structural", seed, 2000))
    nmax = 9 if tier == "quick" else 10
    for n in range(1, nmax + 1):
        jobs.append(("breaks", n, 2 ** n * 10))
    for n in ((1, 2, 3) if tier == "quick" else (1, 2, 3, 4)):
        for ma in (2, 3):
            nchunk = 1 if n < 3 else (8 if n == 3 else 64)
            for ch in range(nchunk):
                jobs.append(("fixed", n, ma, ch, nchunk, 7 ** (n * ma) // nchunk))
    for P in (2, 4):
        for ch in range(8):
            jobs.append(("screen", P, ch, 8, seed, 20000))
    for P in (3, 6, 8, 11, 12, 13, 16):
        jobs.append(("screenhi", P, seed, 15000))
    jobs.append(("wiring", seed, 4000))
    jobs.sort(key=lambda j: -j[-1])
    return jobs


def run_job(job):
    if job[0] == "wiring":
        return job_wiring(job)
    return {"sweep": job_sweep, "sweepjit": job_sweepjit, "structural": job_structural, "breaks": job_breaks, "fixed": job_fixed, "screen": job_screen, "screenhi": job_screenhi}[job[0]](job)


# --------------------------------------------------------------------------- 1. sweep
def job_sweep(job):
    from mchap.assemble import mutation

    _, P, _ = job
    r = Result()
    payload = {"kind": "job", "job": job}
    rec = []

    def fake_base_step(genotype, reads, llk, h, j, n_alleles, log_unique_haplotypes, inbreeding=0, temp=1, read_counts=None, cache=None):
        rec.append((int(h), int(j), int(n_alleles)))
        return llk, cache

    for n in SWEEP_N:
        genotype = np.zeros((P, n), np.int8)  # int8: what DenovoMCMC passes
        reads = np.full((1, n, 3), 0.5)
        n_alleles = (np.arange(n) % 2 + 2).astype(np.int8)
        want = sorted((h, j, int(n_alleles[j])) for h in range(P) for j in range(n))
        modes = ["all"] if P * n <= 6 else ["ends"]
        for mode in modes:
            def run(o):
                rec.clear()
                with patched((mutation, "np", NumpyProxy(o)), (mutation, "base_step", fake_base_step)):
                    mutation.compound_step.py_func(genotype.copy(), reads, 0.0, n_alleles, 1.0)
                return list(rec)

            for o, visited in explore(run, perm_mode=mode):
                r.evaluations += 1
                r.states += 1
                r.transitions += len(visited)
                if n >= 2:
                    r.nontrivial += 1
                if sorted(visited) != want:
                    missing = sorted(set(want) - set(visited))[:4]
                    extra = [v for v in visited if visited.count(v) > 1 or v not in want][:4]
                    r.violation("sweep|P=%d|n=%d" % (P, n), "one iteration attempted %d mutations; missing (haplotype, SNV, n_alleles) %r, repeated/unknown %r" % (len(visited), missing, extra), payload)
                    break
                if len([e for e in o.log if e[0] == "shuffle"]) != 1:
                    r.violation("sweep-seam|P=%d|n=%d" % (P, n), "expected exactly one shuffle, log %r" % ([e[:2] for e in o.log],), payload)
                r.outcome((P, n, visited[0] if visited else None))
    r.sample({"sweep": "ploidy %d" % P, "n_SNVs": SWEEP_N})
    return r


def job_sweepjit(job):
    """compiled sweep on flat reads: within 50 iterations every (haplotype, site) must have changed at least once"""
    from mchap.assemble import mutation
    from mchap.jitutils import seed_numba

    r = Result()
    payload = {"kind": "job", "job": job}
    for P, n in ((2, 130), (2, 200), (1, 258), (4, 129)):
        genotype = np.zeros((P, n), np.int8)
        reads = np.full((1, n, 2), 0.5)
        n_alleles = np.full(n, 2, np.int8)
        changed = np.zeros((P, n), bool)
        seed_numba(1 + job[1])
        from mchap.assemble.likelihood import log_likelihood

        llk = log_likelihood(reads, genotype)
        for it in range(120):
            g0 = genotype.copy()
            llk, _ = mutation.compound_step(genotype, reads, llk, n_alleles, math.log(2.0) * n)
            changed |= g0 != genotype
        r.evaluations += 1
        r.traces += 120
        r.nontrivial += 1
        if not changed.all():
            r.violation("sweep-jit|P=%d|n=%d" % (P, n), "%d (haplotype, site) pairs never mutated in 120 compiled sweeps on flat reads, e.g. sites %r" % ((~changed).sum(), np.where(~changed.all(axis=0))[0][:6].tolist()), payload)
        r.outcome((P, n, int(changed.sum())))
    r.sample({"compiled_sweep": [(2, 130), (2, 200), (1, 258), (4, 129)]})
    return r


def job_structural(job):
    """structural.compound_step visits every interval exactly once, in an owned permutation"""
    from mchap.assemble import structural

    r = Result()
    payload = {"kind": "job", "job": job}
    rec = []

    def fake_interval_step(genotype, reads, llk, log_unique_haplotypes, inbreeding=0, interval=None, step_type=0, temp=1, read_counts=None, cache=None):
        rec.append((tuple(int(x) for x in interval), int(step_type), float(temp)))
        return llk, cache

    for n_iv in range(1, 6):
        bounds = list(range(0, 2 * n_iv + 1, 2))
        intervals = np.array([[bounds[i], bounds[i + 1]] for i in range(n_iv)])
        g = np.zeros((2, 2 * n_iv), np.int8)
        reads = np.full((1, 2 * n_iv, 2), 0.5)
        for st in (0, 1):
            for randomize in (True, False):
                def run(o):
                    rec.clear()
                    with patched((structural, "np", NumpyProxy(o)), (structural, "interval_step", fake_interval_step)):
                        structural.compound_step.py_func(g.copy(), reads, 0.0, intervals, 1.0, 0.0, st, randomize, 0.5, None, None)
                    return list(rec)

                for o, visited in explore(run):
                    r.evaluations += 1
                    r.states += 1
                    r.transitions += len(visited)
                    r.nontrivial += 1
                    want = sorted((tuple(iv), st, 0.5) for iv in intervals.tolist())
                    if sorted(visited) != want:
                        r.violation("structural-sweep|intervals=%d|type=%d" % (n_iv, st), "visited %r, expected every interval once %r" % (visited, want), payload)
                    r.outcome((n_iv, st, randomize, tuple(visited)))
    r.sample({"structural_sweep": "1..5 intervals, both step types, every permutation answer"})
    return r


# --------------------------------------------------------------------------- 2. random_breaks
def all_partitions(n, breaks):
    out = set()
    for cut in itertools.combinations(range(1, n), breaks):
        pts = (0,) + cut + (n,)
        out.add(tuple((pts[i], pts[i + 1]) for i in range(breaks + 1)))
    return out


def job_breaks(job):
    from mchap.assemble import structural
    from mchap.assemble.mcmc import _point_beta_probabilities
    from mchap.jitutils import seed_numba

    _, n, _ = job
    r = Result()
    payload = {"kind": "job", "job": job}
    for breaks in range(0, n):
        want = all_partitions(n, breaks)

        def run(o):
            with patched((structural, "np", NumpyProxy(o))):
                iv = structural.random_breaks.py_func(breaks, n)
            return tuple(map(tuple, iv.tolist()))

        got = set()
        for o, iv in explore(run, limit=2000000):
            r.evaluations += 1
            r.states += 1
            r.transitions += len(o.log)
            if n >= 2:
                r.nontrivial += 1
            flat = [x for pair in iv for x in pair]
            ok = (len(iv) == breaks + 1 and iv[0][0] == 0 and iv[-1][1] == n and all(a < b for a, b in iv) and all(iv[i][1] == iv[i + 1][0] for i in range(len(iv) - 1)))
            if not ok:
                r.violation("breaks-partition|n=%d|breaks=%d" % (n, breaks), "answers %r give %r: not a partition of [0,%d) into %d contiguous non-empty intervals" % ([e[2] for e in o.log], iv, n, breaks + 1), payload)
            got.add(iv)
        if got != want:
            r.violation("breaks-reachable|n=%d|breaks=%d" % (n, breaks), "%d of %d partitions reachable; missing e.g. %r" % (len(got & want), len(want), sorted(want - got)[:2]), payload)
        for s in range(16):
            seed_numba(s)
            iv = tuple(map(tuple, structural.random_breaks(breaks, n).tolist()))
            r.traces += 1
            if iv not in want:
                r.violation("breaks-jit|n=%d|breaks=%d|seed=%d" % (n, breaks, s), "compiled random_breaks returned %r, not a partition" % (iv,), payload)
        r.outcome((n, breaks, len(got)))
    # breaks >= n must be refused, and the break-count distribution used by the assembler only proposes breaks < n
    try:
        structural.random_breaks(n, n)
        r.violation("breaks-refuse|n=%d" % n, "random_breaks(%d, %d) did not raise" % (n, n), payload)
    except ValueError:
        pass
    for a, b in ((1.0, 3.0), (0.5, 0.5), (2.0, 1.0)):
        d = _point_beta_probabilities(n, a, b)
        r.evaluations += 1
        if len(d) != n or abs(d.sum() - 1) > 1e-9 or d.min() < -1e-12:
            r.violation("breaks-dist|n=%d|a=%g|b=%g" % (n, a, b), "break-count distribution %r does not range over 0..n-1 breaks with total 1" % (d.tolist(),), payload)
    r.sample({"random_breaks": "n=%d, all break counts" % n, "partitions": {b: len(all_partitions(n, b)) for b in range(n)}})
    return r


# --------------------------------------------------------------------------- 3. fixed sites
def run_mcmc_with_recorder(model, reads, counts, hom_matrix=None):
    """DenovoMCMC._mcmc (plain python) with the assembler replaced by a recorder that returns sentinel alleles"""
    import mchap.assemble.mcmc as mc

    seen = {}

    def fake_assembler(**kw):
        seen["n_alleles"] = np.asarray(kw["n_alleles"]).tolist()
        seen["reads"] = kw["reads"].copy()
        seen["counts"] = None if kw["read_counts"] is None else np.asarray(kw["read_counts"]).tolist()
        seen["genotype"] = kw["genotype"].copy()
        steps = kw["steps"]
        ploidy, n_het = kw["genotype"].shape
        # sentinel: allele = (column index within the sampled block + 1) % n_alleles, varies per haplotype/step
        g = np.zeros((1, steps, ploidy, n_het), np.int8)
        for s in range(steps):
            for h in range(ploidy):
                for j in range(n_het):
                    g[0, s, h, j] = (j + h + s) % int(kw["n_alleles"][j])
        return g, np.full((1, steps), -1.25)

    patches = [(mc, "_denovo_assembler", fake_assembler)]
    if hom_matrix is not None:
        patches.append((mc, "_homozygosity_probabilities", lambda *a, **k: hom_matrix.copy()))
    with patched(*patches):
        G, L = model._mcmc(reads, counts, initial=None if hom_matrix is None else None)
    return G, L, seen


def check_mcmc(r, payload, tag, model, reads, counts, fixed_allele, n_alleles, steps, ploidy):
    """fixed_allele: list per SNV of None (sampled) or the allele held fixed"""
    n = len(fixed_allele)
    het = [j for j in range(n) if fixed_allele[j] is None]
    try:
        G, L, seen = run_mcmc_with_recorder(model, reads, counts, None if tag.startswith("screen") else model._hom)
    except Exception as e:  # noqa
        r.violation(tag.split("|")[0] + "-exception|%s" % type(e).__name__, "%s: %s (%s)" % (type(e).__name__, e, tag), payload)
        return
    kind = tag.split("|")[0]
    if not het:
        want = np.tile(np.array([a for a in fixed_allele], np.int8), (steps, ploidy, 1))
        if G.shape != want.shape or not np.array_equal(G, want) or not np.isnan(L).all():
            r.violation(kind + "-all-fixed", "all SNVs fixed: trace %r, expected every haplotype %r (%s)" % (G[0].tolist() if len(G) else None, fixed_allele, tag), payload)
        return
    if seen.get("n_alleles") != [n_alleles[j] for j in het]:
        r.violation(kind + "-passed-on", "SNVs passed to the sampler have n_alleles %r, expected the non-fixed SNVs %r with %r (%s)" % (seen.get("n_alleles"), het, [n_alleles[j] for j in het], tag), payload)
        return
    if seen["reads"].shape[1] != len(het) or not np.array_equal(np.nan_to_num(seen["reads"], nan=-1), np.nan_to_num(reads[:, het], nan=-1)):
        r.violation(kind + "-reads-passed", "read columns passed to the sampler are not those of the non-fixed SNVs %r (%s)" % (het, tag), payload)
    if (counts is None) != (seen["counts"] is None) or (counts is not None and seen["counts"] != list(counts)):
        r.violation(kind + "-counts-passed", "read counts passed to the sampler %r, expected %r (%s)" % (seen["counts"], None if counts is None else list(counts), tag), payload)
    want = np.zeros((steps, ploidy, n), np.int64)
    for s in range(steps):
        for h in range(ploidy):
            for k, j in enumerate(het):
                want[s, h, j] = (k + h + s) % n_alleles[j]
            for j in range(n):
                if fixed_allele[j] is not None:
                    want[s, h, j] = fixed_allele[j]
    if G.shape != want.shape or not np.array_equal(G, want):
        r.violation(kind + "-template", "trace columns: got step0 %r, expected %r (fixed alleles %r) (%s)" % (G[0].tolist(), want[0].tolist(), fixed_allele, tag), payload)
    if not np.array_equal(L, np.full(steps, -1.25)):
        r.violation(kind + "-llk", "llk trace not passed through (%s)" % tag, payload)
    if tag.startswith("screen"):
        # the public entry point fit() must hand the same read set to the same screen (whatever the number of distinct reads)
        import mchap.assemble.mcmc as mc

        seen2 = {}

        def fake2(**kw):
            seen2["n_alleles"] = np.asarray(kw["n_alleles"]).tolist()
            seen2["reads"] = kw["reads"].copy()
            seen2["counts"] = None if kw["read_counts"] is None else np.asarray(kw["read_counts"]).tolist()
            ploidy_, n_het = kw["genotype"].shape
            return np.zeros((1, kw["steps"], ploidy_, n_het), np.int8), np.full((1, kw["steps"]), -1.25)

        try:
            with patched((mc, "_denovo_assembler", fake2)):
                model.fit(reads, read_counts=counts)
        except Exception as e:  # noqa
            r.violation(kind + "-fit-exception|%s" % type(e).__name__, "%s: %s (%s)" % (type(e).__name__, e, tag), payload)
            return
        if seen2.get("n_alleles") != seen.get("n_alleles") or not np.array_equal(np.nan_to_num(seen2["reads"], nan=-1), np.nan_to_num(seen["reads"], nan=-1)) \
                or seen2.get("counts") != seen.get("counts"):
            r.violation(kind + "-fit-differs", "fit() sampled SNVs with n_alleles %r on %d read row(s), _mcmc on the same data %r on %d row(s) (%s)" % (
                seen2.get("n_alleles"), len(seen2["reads"]), seen.get("n_alleles"), len(seen["reads"]), tag), payload)


def job_fixed(job):
    from mchap.assemble.mcmc import DenovoMCMC

    _, n, ma, ch, nchunk, _ = job
    r = Result()
    payload = {"kind": "job", "job": job}
    thr = 0.9
    eps = 1e-9
    vals = [0.0, thr - eps, thr, 1.0]
    steps, ploidy = 3, 2
    n_alleles = [ma if j % 2 == 0 else 2 for j in range(n)]
    reads = np.full((2, n, ma), 0.5)
    reads[0, 0, :] = np.nan
    counts = np.array([2, 1])
    # per SNV: which allele (if any) reaches the threshold; at most one entry >= thr per row (thr > 0.5), others below
    row_opts = []
    for j in range(n):
        rows = []
        for a in range(-1, n_alleles[j]):
            for top in ((thr, 1.0) if a >= 0 else (None,)):
                for low in (0.0, thr - eps):
                    row = [low if k < n_alleles[j] else 0.0 for k in range(ma)]
                    if a >= 0:
                        row[a] = top
                    rows.append((a, row))
        row_opts.append(rows)
    for ci, combo in enumerate(itertools.product(*row_opts)):
        if ci % nchunk != ch:
            continue
        hom = np.array([row for _, row in combo], float)
        fixed = [a if a >= 0 else None for a, _ in combo]
        model = DenovoMCMC(ploidy=ploidy, n_alleles=n_alleles, steps=steps, chains=1, fix_homozygous=thr, random_seed=1)
        model._hom = hom
        r.evaluations += 1
        r.states += 1
        if n >= 2:
            r.nontrivial += 1
        tag = "fixed|n=%d|max_allele=%d|hom=%s" % (n, ma, hom.tolist())
        check_mcmc(r, payload, tag, model, reads, counts, fixed, n_alleles, steps, ploidy)
        r.outcome((n, ma, tuple(fixed)))
    r.sample({"fixed_sites": "n=%d SNVs, max_allele=%d" % (n, ma), "threshold": thr, "matrices": len(list(itertools.product(*row_opts)))}, cap=1)
    return r


def snv_hom_probs(site_reads, counts, n_alleles, ploidy, F):
    """reference single-SNV posterior probability of each homozygous genotype"""
    gens = ref.multisets(range(n_alleles), ploidy)
    flat = [1.0 / n_alleles] * n_alleles
    w = {}
    for g in gens:
        pr = ref.dm_prior(g, flat, F)
        l = ref.llk([[s] for s in site_reads], counts, [(a,) for a in g])
        w[g] = pr * math.exp(l)
    z = sum(w.values())
    return [w[(a,) * ploidy] / z for a in range(n_alleles)]


def job_screen(job):
    """the real single-SNV homozygosity screen inside _mcmc, with read counts"""
    from mchap.assemble.mcmc import DenovoMCMC, _homozygosity_probabilities

    _, P, ch, nchunk, seed, _ = job
    r = Result()
    payload = {"kind": "job", "job": job}
    thr = [0.9, 0.95, 0.8][seed % 3]
    F = 0.1
    n_alleles = [2, 3]
    ma = 3
    site_letters = {
        2: [None, [0.95, 0.05 / 3, 0.0], [0.05 / 3, 0.95, 0.0], [0.7, 0.1, 0.0]],
        3: [None, [0.95, 0.05 / 3, 0.05 / 3], [0.05 / 3, 0.95, 0.05 / 3], [0.05 / 3, 0.05 / 3, 0.95]],
    }
    letters = [(a, b) for a in site_letters[2] for b in site_letters[3]]
    steps = 2
    skipped = 0
    ci = -1
    for k in (1, 2, 3):
        for combo in itertools.combinations(range(len(letters)), k):
            for cnts in itertools.product((1, 3, 9), repeat=k):
                ci += 1
                if ci % nchunk != ch:
                    continue
                reads = np.full((k, 2, ma), np.nan)
                for i, li in enumerate(combo):
                    for j in range(2):
                        if letters[li][j] is not None:
                            reads[i, j] = letters[li][j]
                counts = np.array(cnts)
                fixed = []
                near = False
                for j in range(2):
                    site = [None if letters[li][j] is None else letters[li][j] for li in combo]
                    hp = snv_hom_probs(site, list(cnts), n_alleles[j], P, F)
                    if any(abs(p - thr) < 1e-9 for p in hp):
                        near = True
                    top = [a for a, p in enumerate(hp) if p >= thr]
                    fixed.append(top[0] if top else None)
                    # the real screen agrees with the reference posterior
                if near:
                    skipped += 1
                    continue
                hp_code = _homozygosity_probabilities(reads, np.array(n_alleles, np.int8), P, F, counts)
                for j in range(2):
                    site = [None if letters[li][j] is None else letters[li][j] for li in combo]
                    hp = snv_hom_probs(site, list(cnts), n_alleles[j], P, F)
                    if np.abs(hp_code[j, : n_alleles[j]] - hp).max() > 1e-9:
                        r.violation("screen-posterior|P=%d" % P, "single-SNV homozygous posteriors %r, reference %r (reads %r counts %r SNV %d)" % (hp_code[j].tolist(), hp, combo, cnts, j), payload)
                model = DenovoMCMC(ploidy=P, n_alleles=n_alleles, steps=steps, chains=1, fix_homozygous=thr, inbreeding=F, random_seed=1)
                r.evaluations += 1
                r.states += 1
                r.nontrivial += 1
                tag = "screen|P=%d|thr=%g|reads=%s|counts=%s" % (P, thr, [("%s/%s" % (letters[li][0] and letters[li][0][:2], letters[li][1] and letters[li][1][:3])) for li in combo], cnts)
                check_mcmc(r, payload, tag, model, reads, counts, fixed, n_alleles, steps, P)
                r.outcome((P, combo, cnts, tuple(fixed)))
    r.count("screen_cases_skipped_near_threshold", skipped)
    r.sample({"screen": "real _homozygosity_probabilities inside _mcmc", "ploidy": P, "threshold": thr, "F": F}, cap=1)
    return r


def job_screenhi(job):
    """the homozygosity screen at higher ploidies (genotype counts beyond the binomial lookup table start at ploidy 12): posterior table = reference, and the
    sampler fixes exactly the SNVs whose homozygous posterior reaches the threshold"""
    from mchap.assemble.mcmc import DenovoMCMC, _homozygosity_probabilities

    _, P, seed, _ = job
    r = Result()
    payload = {"kind": "job", "job": job}
    F = [0.1, 0.0, 0.3][seed % 3]
    n_alleles = [2, 3]
    ma = 3
    e = 0.02
    site_letters = {
        2: [None, [1 - e, e, 0.0], [e, 1 - e, 0.0]],
        3: [None, [1 - e, e / 2, e / 2], [e / 2, e / 2, 1 - e]],
    }
    letters = [(a, b) for a in site_letters[2] for b in site_letters[3]]
    thr = 0.9
    for k in (1, 2):
        for combo in itertools.combinations(range(len(letters)), k):
            for cnts in itertools.product((2, 40), repeat=k):
                reads = np.full((k, 2, ma), np.nan)
                for i, li in enumerate(combo):
                    for j in range(2):
                        if letters[li][j] is not None:
                            reads[i, j] = letters[li][j]
                counts = np.array(cnts)
                hp_code = _homozygosity_probabilities(reads, np.array(n_alleles, np.int8), P, F, counts)
                fixed, near = [], False
                for j in range(2):
                    site = [letters[li][j] for li in combo]
                    hp = snv_hom_probs(site, list(cnts), n_alleles[j], P, F)
                    r.evaluations += 1
                    r.nontrivial += 1
                    got = np.asarray(hp_code[j, : n_alleles[j]], float)
                    if got.shape != (n_alleles[j],) or not np.allclose(got, hp, rtol=1e-7, atol=1e-9):
                        r.violation("screenhi-posterior|P=%d" % P, "single-SNV homozygous posteriors %r, reference %r (reads %r counts %r SNV %d, F=%g)" % (got.tolist(), hp, combo, cnts, j, F), payload)
                    near = near or any(abs(p - thr) < 1e-6 for p in hp)
                    top = [a for a, p in enumerate(hp) if p >= thr]
                    fixed.append(top[0] if top else None)
                if near:
                    continue
                model = DenovoMCMC(ploidy=P, n_alleles=n_alleles, steps=2, chains=1, fix_homozygous=thr, inbreeding=F, random_seed=1)
                r.states += 1
                tag = "screenhi|P=%d|reads=%s|counts=%s" % (P, combo, cnts)
                check_mcmc(r, payload, tag, model, reads, counts, fixed, n_alleles, 2, P)
                r.outcome((P, combo, cnts, tuple(fixed)))
    r.sample({"screen": "ploidy %d, <= 2 distinct reads x counts {2,40}" % P, "threshold": thr, "F": F}, cap=1)
    return r


def job_wiring(job):
    """every sampler option given on the `mchap assemble` command line reaches the sampler object that is fitted (and nothing else does)"""
    from .. import env, stddata
    import mchap.application.assemble as asm

    env.quiet()
    r = Result()
    payload = {"kind": "job", "job": job}
    d = env.scratch_dir("c15w")
    D = stddata.Data(d)
    bed = D.bed_subset(["L1", "L3"], "w.bed")
    real = asm.DenovoMCMC
    seen = []

    class Rec(real):
        def fit(self, *a, **k):
            seen.append({f: getattr(self, f) for f in ("ploidy", "n_alleles", "inbreeding", "steps", "chains", "fix_homozygous", "recombination_step_probability",
                                                       "partial_dosage_step_probability", "dosage_step_probability", "temperatures", "random_seed", "llk_cache_threshold")})
            return real.fit(self, *a, **k)

    settings = [
        dict(fix=0.6, steps=77, burn=11, chains=3, rec=0.3, pdos=0.2, dos=0.7, seed=5, cache=7, temps=(0.4, 1.0), F=0.15),
        dict(fix=0.85, steps=64, burn=20, chains=1, rec=1.0, pdos=0.0, dos=0.25, seed=0, cache=-1, temps=(1.0,), F=0.0),
    ]
    for st in settings:
        seen.clear()
        extra = ["--mcmc-fix-homozygous", str(st["fix"]), "--mcmc-chains", str(st["chains"]), "--mcmc-recombination-step-probability", str(st["rec"]),
                 "--mcmc-partial-dosage-step-probability", str(st["pdos"]), "--mcmc-dosage-step-probability", str(st["dos"]), "--mcmc-seed", str(st["seed"]),
                 "--mcmc-llk-cache-threshold", str(st["cache"]), "--inbreeding", str(st["F"]), "--mcmc-temperatures"] + [str(t) for t in st["temps"]]
        argv = D.assemble_args(bed=bed, extra=extra)
        for opt, val in (("--mcmc-steps", st["steps"]), ("--mcmc-burn", st["burn"])):
            argv[argv.index(opt) + 1] = str(val)
        from ..seams import patched

        with patched((asm, "DenovoMCMC", Rec)):
            stddata.run(argv)
        env.quiet()
        r.evaluations += 1
        r.nontrivial += 1
        if len(seen) != 2 * 3:
            r.violation("wiring-count", "%d sampler objects fitted for 2 loci x 3 samples" % len(seen), payload)
        for i, got in enumerate(seen):
            sample = D.samples[i % 3]
            want = dict(ploidy=stddata.PLOIDY[sample], inbreeding=st["F"], steps=st["steps"], chains=st["chains"], fix_homozygous=st["fix"],
                        recombination_step_probability=st["rec"], partial_dosage_step_probability=st["pdos"], dosage_step_probability=st["dos"],
                        random_seed=st["seed"], llk_cache_threshold=st["cache"])
            for k_, v in want.items():
                if got[k_] != v:
                    r.violation("wiring|%s" % k_, "sampler for %s received %s=%r, the command line says %r (%s)" % (sample, k_, got[k_], v, extra), payload)
            if [float(t) for t in got["temperatures"]] != [float(t) for t in st["temps"]]:
                r.violation("wiring|temperatures", "sampler for %s received temperatures %r, the command line says %r" % (sample, got["temperatures"], st["temps"]), payload)
        r.outcome(tuple(sorted(st.items())))
    # per-sample parameter files (lines in another order than the BAM arguments; a sample missing from the ladder file keeps the default ladder)
    import os

    Fs = {"S1": 0.05, "S2": 0.3, "S3": 0.15}
    ladders = {"S2": (0.3, 0.6), "S3": (0.9,)}
    f_in = os.path.join(D.dir, "inb.txt")
    with open(f_in, "w") as f:
        for s_ in ("S3", "S1", "S2"):
            f.write("%s\t%g\n" % (s_, Fs[s_]))
    f_t = os.path.join(D.dir, "temps.txt")
    with open(f_t, "w") as f:
        for s_ in ("S3", "S2"):
            f.write("\t".join([s_] + ["%g" % t for t in ladders[s_]]) + "\n")
    seen.clear()
    with patched((asm, "DenovoMCMC", Rec)):
        stddata.run(D.assemble_args(bed=bed, extra=["--inbreeding", f_in, "--mcmc-temperatures", f_t]))
    env.quiet()
    r.evaluations += 1
    r.nontrivial += 1
    if len(seen) != 2 * 3:
        r.violation("wiring-count", "%d sampler objects fitted for 2 loci x 3 samples (parameter files)" % len(seen), payload)
    for i, got in enumerate(seen):
        sample = D.samples[i % 3]
        want_t = sorted(ladders.get(sample, ())) + [1.0] if sample in ladders else [1.0]
        if got["ploidy"] != stddata.PLOIDY[sample] or got["inbreeding"] != Fs[sample]:
            r.violation("wiring|sample-file|inbreeding", "sampler for %s received ploidy %r / inbreeding %r, the files say %r / %r" % (
                sample, got["ploidy"], got["inbreeding"], stddata.PLOIDY[sample], Fs[sample]), payload)
        if [float(t) for t in got["temperatures"]] != [float(t) for t in want_t]:
            r.violation("wiring|sample-file|temperatures", "sampler for %s received temperatures %r, the ladder file gives %r" % (sample, list(got["temperatures"]), want_t), payload)
    r.outcome(("files", tuple(sorted(Fs.items()))))
    # every numeric sampler option, boundary values included (0 is falsy: a default must not replace it)
    from .. import optwire
    from mchap.application import arguments as A

    opts = tuple(f for f, _, _ in optwire.scalar_options(A.ASSEMBLE_MCMC_PARSER_ARGUMENTS) if f.startswith("--mcmc-"))
    optwire.check(r, payload, asm.program, D.assemble_args(bed=bed), A.ASSEMBLE_MCMC_PARSER_ARGUMENTS, "assemble", only=opts)
    for v in (0.0, 0.5, 0.999, 1.0):
        obj = asm.program.cli(D.assemble_args(bed=bed) + ["--mcmc-fix-homozygous", repr(v)])
        r.evaluations += 1
        if float(obj.mcmc_fix_homozygous) != v:
            r.violation("wiring|cli-fix-homozygous", "--mcmc-fix-homozygous %r gives a program with %r" % (v, obj.mcmc_fix_homozygous), payload)
    r.sample({"wiring": "assemble CLI options -> DenovoMCMC attributes", "settings": len(settings), "option_injectivity": list(opts)})
    return r
