"""C16  Input allele filtering and prior-frequency options do what they say."""
import itertools
import os

import numpy as np

from ..result import Result
from .. import env, stddata, synth, vcfparse
from ..synth import REF

META = {
    "level": "exploration",
    "rule": "records with 2 ALTs and INFO fields XR (Number=R) / XA (Number=A), Float and Integer typed, every value vector from a small grid (incl. all-zero) x "
    "REFMASKED on/off x every filter <field><op><value> over the documented operators and a threshold grid (incl. equality) x frequency tag {none, XR}: "
    "LocusPrior.from_variant_record directly, and call / call-exact / call-pedigree through their command-line entry points on real reads; "
    "non-trivial = a filter or a frequency tag is in effect",
    "bound": {"quick": "Float grid {0,.25,.5,.75,1} (XR: 125 vectors, XA: 25), Integer grid {0,1,2,5}; operators = == > >= < <= !=; thresholds {0,.25,.5,1,2}; "
                       "programs: 128 records x 33 option sets x 3 programs, inbreeding 0.3",
              "thorough": "programs with all 71 filter settings"},
    "assumptions": ["Float values are exactly representable in float32 (htslib), so boundary comparisons are well defined", "missing ('.') entries inside INFO vectors are outside the alphabet"],
    "trusted_base": ["pysam VCF reader", "vmc/vcfparse.py"],
}

OPS = {"=": lambda a, b: a == b, "==": lambda a, b: a == b, ">": lambda a, b: a > b, ">=": lambda a, b: a >= b, "<": lambda a, b: a < b, "<=": lambda a, b: a <= b, "!=": lambda a, b: a != b}
FGRID = [0.0, 0.25, 0.5, 0.75, 1.0]
IGRID = [0, 1, 2, 5]
THRS = ["0", "0.25", "0.5", "1", "2"]


def expected_prior(ref, alts, xr, xa, masked, flt, tag):
    """independent statement of the documented behaviour -> (kept ALT strings, mask, frequency vector or None for all-NaN)"""
    n = len(alts) + 1
    keep = [True] * n
    mask = bool(masked)
    if flt is not None:
        field, op, val = flt
        v = float(val)
        if field in ("XR", "XRI"):
            keep = [OPS[op](x, v) for x in xr]
        else:
            keep = [True] + [OPS[op](x, v) for x in xa]
        if not keep[0]:
            mask = True
            keep[0] = True
    freqs = [float(x) for x in xr] if tag else [1.0 / n] * n
    if mask:
        freqs[0] = 0.0
    freqs = [f for f, k in zip(freqs, keep) if k]
    kept = [a for a, k in zip(alts, keep[1:]) if k]
    tot = sum(freqs)
    if tot > 0:
        freqs = [f / tot for f in freqs]
    else:
        freqs = None
    return kept, mask, freqs


def warm(tier):
    env.quiet()
    d = env.scratch_dir("c16w")
    D = stddata.Data(d)
    hv = make_vcf(D, [((0.5, 0.25, 0.25), 0)], "w.vcf")
    for prog in ("call", "call-exact", "call-pedigree"):
        stddata.run(D.call_args(prog, hv, report=["AFP", "GP", "AFPRIOR"], extra=["--prior-frequencies", "XR"] + (D.pedigree_files() if prog == "call-pedigree" else ["--inbreeding", "0.3"])))
    env.quiet()


def l1_strings():
    snvs = stddata.locus_snvs("L1")
    ref = REF["chr1"][8:30]
    a1 = synth.hap_seq("chr1", 8, 22, snvs, (1, 1, 0))
    a2 = synth.hap_seq("chr1", 8, 22, snvs, (1, 2, 1))
    return ref, [a1, a2]


HEADER = ["##fileformat=VCFv4.3"] + ["##contig=<ID=%s,length=%d>" % (k, len(v)) for k, v in REF.items()] + [
    '##INFO=<ID=REFMASKED,Number=0,Type=Flag,Description="m">', '##INFO=<ID=XR,Number=R,Type=Float,Description="r">',
    '##INFO=<ID=XA,Number=A,Type=Float,Description="a">', '##INFO=<ID=XRI,Number=R,Type=Integer,Description="ri">',
    '##INFO=<ID=XAI,Number=A,Type=Integer,Description="ai">', "#CHROM\tPOS\tID\tREF\tALT\tQUAL\tFILTER\tINFO"]


def fmtv(x):
    return ("%g" % x)


def make_vcf(D, cases, name, integer=False):
    """cases: list of (xr vector, masked); XA is derived as the ALT part of XR; len(xr) - 1 ALTs are listed"""
    ref, all_alts = l1_strings()
    lines = list(HEADER)
    for i, case in enumerate(cases):
        xr, masked = case[0], case[1]
        nofield = len(case) > 2 and case[2]
        alts = all_alts[: len(xr) - 1]
        if nofield:
            lines.append("chr1\t9\tr%d\t%s\t%s\t.\t.\t%s" % (i, ref, ",".join(alts) if alts else ".", "REFMASKED" if masked else "."))
            continue
        if integer:
            info = "XRI=%s;XAI=%s" % (",".join(str(int(x)) for x in xr), ",".join(str(int(x)) for x in xr[1:]) if len(xr) > 1 else ".")
        else:
            info = "XR=%s;XA=%s" % (",".join(fmtv(x) for x in xr), ",".join(fmtv(x) for x in xr[1:]) if len(xr) > 1 else ".")
        if masked:
            info = "REFMASKED;" + info
        lines.append("chr1\t9\tr%d\t%s\t%s\t.\t.\t%s" % (i, ref, ",".join(alts) if alts else ".", info))
    p = os.path.join(D.dir, name)
    with open(p, "w") as f:
        f.write("\n".join(lines) + "\n")
    return synth.bgzip_tabix(p)


def filters(fields, full=True):
    out = [None]
    for field in fields:
        for op in OPS:
            for t in THRS:
                out.append((field, op, t))
    return out


def plan(tier, seed):
    jobs = []
    for typ in ("float", "int"):
        for ch in range(16):
            jobs.append(("prior", typ, ch, 16, 20000 if typ == "float" else 8000))
    progs = ("call", "call-exact", "call-pedigree")
    fl = filters(("XR", "XA"))
    if tier == "quick":
        fl = [None] + [f for f in fl[1:] if f[1] in (">=", "<", "!=", "=") and f[2] in ("0", "0.5", "1")] + [("XR", ">", "0.25"), ("XA", "<=", "0.25"), ("XR", "==", "0.25")]
    for prog in progs:
        for fi in range(len(fl)):
            jobs.append(("prog", prog, fl[fi], 15000))
        jobs.append(("progint", prog, 6000))
    jobs.append(("parse", 0, 100))
    jobs.sort(key=lambda j: -j[-1])
    return jobs


def run_job(job):
    env.quiet()
    return {"prior": job_prior, "prog": job_prog, "progint": job_progint, "parse": job_parse}[job[0]](job)


# --------------------------------------------------------------------------- LocusPrior
def job_prior(job):
    import pysam
    from mchap.io.loci import LocusPrior

    _, typ, ch, nch, _ = job
    r = Result()
    payload = {"kind": "job", "job": job}
    d = env.scratch_dir("c16")
    grid = FGRID if typ == "float" else IGRID
    ref, all_alts = "ACA", ["AGA", "ACT"]
    rfield, afield = ("XR", "XA") if typ == "float" else ("XRI", "XAI")
    cases = []
    for n_alt in (0, 1, 2):
        for xr in itertools.product(grid, repeat=1 + n_alt):
            for xa in itertools.product(grid, repeat=n_alt):
                for m in (0, 1):
                    cases.append((xr, xa, m))
    cases = [c for i, c in enumerate(cases) if i % nch == ch]
    path = os.path.join(str(d), "p.vcf")
    with open(path, "w") as f:
        f.write("\n".join(HEADER) + "\n")
        for i, (xr, xa, m) in enumerate(cases):
            alts = all_alts[: len(xa)]
            info = "%s=%s;%s=%s" % (rfield, ",".join(fmtv(x) for x in xr), afield, ",".join(fmtv(x) for x in xa) if xa else ".")
            f.write("chr1\t10\tr%d\t%s\t%s\t.\t.\t%s%s\n" % (i, ref, ",".join(alts) if alts else ".", "REFMASKED;" if m else "", info))
    fl = filters((rfield, afield))
    with pysam.VariantFile(path) as vf:
        for rec, (xr, xa, m) in zip(vf, cases):
            alts = all_alts[: len(xa)]
            for flt in fl:
                for tag in (None, rfield):
                    r.evaluations += 1
                    if flt is not None or tag:
                        r.nontrivial += 1
                    kept, mask, freqs = expected_prior(ref, alts, xr, xa, m, flt, tag)
                    fstr = None if flt is None else "%s%s%s" % flt
                    tagd = "type=%s|n_alt=%d|XR=%s|XA=%s|masked=%d|filter=%s|freq=%s" % (typ, len(alts), xr, xa, m, fstr, tag)
                    try:
                        lp = LocusPrior.from_variant_record(rec, frequency_tag=tag, allele_filter=fstr)
                    except Exception as e:  # noqa
                        r.violation("prior-exception|type=%s|n_alt=%d|field=%s|%s" % (typ, len(alts), flt and flt[0], type(e).__name__), "%s: %s (%s)" % (type(e).__name__, str(e)[:150], tagd), payload)
                        continue
                    if list(lp.alts) != kept:
                        r.violation("prior-alts|type=%s|field=%s" % (typ, flt and flt[0]), "retained ALT %r, alleles passing the predicate %r (%s)" % (list(lp.alts), kept, tagd), payload)
                        continue
                    if bool(lp.mask_reference_allele) != mask:
                        r.violation("prior-mask|type=%s" % typ, "reference masked=%s, expected %s (%s)" % (lp.mask_reference_allele, mask, tagd), payload)
                    got = np.asarray(lp.frequencies, float)
                    if freqs is None:
                        ok = len(got) == len(kept) + 1 and np.isnan(got).all()
                    else:
                        ok = len(got) == len(freqs) and np.allclose(got, freqs, rtol=0, atol=1e-12)
                    if not ok:
                        r.violation("prior-frequencies|type=%s|tag=%s|field=%s" % (typ, tag, flt and flt[0]),
                                    "prior frequencies %r, INFO values normalised over the retained alleles %r (%s)" % (got.tolist(), freqs, tagd), payload)
                    if lp.sequence != ref:
                        r.violation("prior-ref|type=%s" % typ, "REF changed to %r (%s)" % (lp.sequence, tagd), payload)
                    r.outcome((tuple(kept), mask, None if freqs is None else tuple(round(x, 6) for x in freqs)))
    os.remove(path)
    r.sample({"LocusPrior_cases": r.evaluations, "type": typ})
    return r


def job_parse(job):
    """operator grammar: the documented operators parse, anything else is refused"""
    from mchap.io.filter_alleles import parse_allele_filter

    r = Result()
    payload = {"kind": "job", "job": job}
    for op in list(OPS) + ["<>", "=>", "=<", "~", ""]:
        for val in ("1", "0.5", ".5", "2.", "x", ""):
            s = "XR%s%s" % (op, val)
            r.evaluations += 1
            r.nontrivial += 1
            valid = op in OPS and val not in ("x", "")
            try:
                field, func, value = parse_allele_filter(s)
                if not valid:
                    r.violation("parse-accepts|op=%s|val=%s" % (op, val), "filter %r accepted as %r %r" % (s, func, value), payload)
                elif field != "XR" or float(value) != float(val) or not bool(func(np.array([float(val)]), value)[0]) == OPS[op](float(val), float(val)):
                    r.violation("parse-meaning|op=%s|val=%s" % (op, val), "filter %r parsed as (%r, %r, %r)" % (s, field, func, value), payload)
            except ValueError:
                if valid:
                    r.violation("parse-refuses|op=%s|val=%s" % (op, val), "documented filter %r refused" % s, payload)
            r.outcome((op, val, valid))
    r.sample({"filter_grammar": list(OPS)})
    return r


# --------------------------------------------------------------------------- programs
def check_output(r, payload, prog, out, cases, flt, tag, integer, tagp):
    ref, all_alts = l1_strings()
    hdr, samples, recs = vcfparse.parse(out)
    if len(recs) != len(cases):
        r.violation("prog-records|%s" % prog, "%d records for %d input records (%s)" % (len(recs), len(cases), tagp), payload)
        return
    for rec, case in zip(recs, cases):
        xr, masked = case[0], case[1]
        nofield = len(case) > 2 and case[2]
        r.evaluations += 1
        if flt is not None or tag:
            r.nontrivial += 1
        alts = all_alts[: len(xr) - 1]
        # a record that carries no value for the filter field keeps all its alleles; the filter still applies to every other record of the file
        kept, mask, freqs = expected_prior(ref, alts, xr, xr[1:], masked, None if nofield else flt, tag)
        tagd = "%s|XR=%s|masked=%d%s" % (tagp, xr, masked, "|record without the field" if nofield else "")
        if rec["ref"] != ref or rec["alt"] != kept:
            r.violation("prog-alts|%s" % prog, "ALT %r, alleles passing the filter %r (%s)" % (rec["alt"], kept, tagd), payload)
            continue
        if ("REFMASKED" in rec["info"]) != mask:
            r.violation("prog-refmasked|%s" % prog, "REFMASKED=%s, expected %s (%s)" % ("REFMASKED" in rec["info"], mask, tagd), payload)
        ap = rec["info"].get("AFPRIOR")
        if freqs is None:
            if ap is not None and not all(x == "." for x in ap):
                r.violation("prog-afprior|%s" % prog, "AFPRIOR %r but no allele has a positive prior (%s)" % (ap, tagd), payload)
        elif ap is None or len(ap) != len(freqs) or any(not (abs(vcfparse.num(x) - f) <= 0.0005 + 1e-9) for x, f in zip(ap, freqs)):
            r.violation("prog-afprior|%s" % prog, "AFPRIOR %r, normalised INFO values %r (%s)" % (ap, freqs, tagd), payload)
        usable = [] if freqs is None else [i for i, f in enumerate(freqs) if f > 0 and not (i == 0 and mask)]
        filt = set(rec["filter"].split(";"))
        gts = [vcfparse.gt_alleles(s["GT"]) for s in rec["samples"]]
        if not usable:
            if not (filt & {"NOA", "AF0"}):
                r.violation("prog-filter|%s" % prog, "no usable allele but FILTER=%s (%s)" % (rec["filter"], tagd), payload)
            if any(a != "." for g in gts for a in g):
                r.violation("prog-missing-calls|%s" % prog, "no usable allele but GT %r (%s)" % (gts, tagd), payload)
            continue
        if filt & {"NOA", "AF0"}:
            r.violation("prog-filter|%s" % prog, "FILTER=%s although alleles %r are usable (%s)" % (rec["filter"], usable, tagd), payload)
            continue
        n_all = len(kept) + 1
        for s, smp, g in zip(samples, rec["samples"], gts):
            if "." in g:
                r.violation("prog-incomplete|%s" % prog, "sample %s GT %s incomplete (%s)" % (s, smp["GT"], tagd), payload)
                continue
            bad = [a for a in g if int(a) not in usable]
            if bad:
                r.violation("prog-gt-unusable|%s" % prog, "sample %s GT %s uses masked / zero-prior allele(s) %r (usable %r) (%s)" % (s, smp["GT"], bad, usable, tagd), payload)
            for fld in ("AFP", "ACP", "AOP"):
                if fld in smp and smp[fld] != ".":
                    v = [float(x) if x != "." else float("nan") for x in smp[fld].split(",")]
                    if len(v) != n_all:
                        r.violation("prog-%s-length|%s" % (fld, prog), "sample %s %s has %d values for %d alleles (%s)" % (s, fld, len(v), n_all, tagd), payload)
                    elif any(v[i] != 0 for i in range(n_all) if i not in usable):
                        r.violation("prog-%s-mass|%s" % (fld, prog), "sample %s %s=%r gives posterior mass to masked / zero-prior alleles (usable %r) (%s)" % (s, fld, v, usable, tagd), payload)
            if "GP" in smp and smp["GP"] != ".":
                gp = [vcfparse.num(x) for x in smp["GP"].split(",")]
                P = len(g)
                import itertools as it

                G = sorted(it.combinations_with_replacement(range(n_all), P), key=lambda t: t[::-1])
                if len(gp) != len(G):
                    r.violation("prog-GP-length|%s" % prog, "sample %s GP has %d values, expected %d (%s)" % (s, len(gp), len(G), tagd), payload)
                elif any(p != 0 for p, gg in zip(gp, G) if any(a not in usable for a in gg)):
                    r.violation("prog-GP-mass|%s" % prog, "sample %s GP gives mass to genotypes with masked / zero-prior alleles (%s)" % (s, tagd), payload)
        r.outcome((prog, tuple(kept), mask, rec["filter"], tuple(s["GT"] for s in rec["samples"])))


def job_prog(job):
    _, prog, flt, _ = job
    r = Result()
    payload = {"kind": "job", "job": job}
    d = env.scratch_dir("c16p")
    D = stddata.Data(d)
    grid = [0.0, 0.25, 0.5, 1.0]
    cases = [(xr, m) for n in (3, 2, 1) for xr in itertools.product(grid, repeat=n) for m in (0, 1)]
    hv = make_vcf(D, cases, "in.vcf")
    fstr = None if flt is None else "%s%s%s" % tuple(flt)
    for tag in (None, "XR"):
        extra = [] if prog == "call-pedigree" else ["--inbreeding", "0.3"]
        if tag:
            extra += ["--prior-frequencies", tag]
        if fstr:
            extra += ["--filter-input-haplotypes", fstr]
        if prog == "call-pedigree":
            extra += D.pedigree_files()
        tagp = "%s|filter=%s|freq=%s" % (prog, fstr, tag)
        try:
            out = stddata.run(D.call_args(prog, hv, report=["AFP", "ACP", "AOP", "GP", "AFPRIOR"], extra=extra))
        except Exception as e:  # noqa
            e = synth.root_cause(e)
            r.violation("prog-exception|%s|%s" % (prog, type(e).__name__), "run aborted: %s: %s (%s)" % (type(e).__name__, str(e)[:200], tagp), payload)
            env.quiet()
            continue
        env.quiet()
        check_output(r, payload, prog, out, cases, None if flt is None else tuple(flt), tag, False, tagp)
    if fstr:
        # the same records interleaved with records that carry no value for the filter field (first record, then every seventh)
        gcases = []
        for i, c in enumerate(cases):
            if i % 7 == 0:
                gcases.append((c[0], c[1], True))
            gcases.append(c)
        hv2 = make_vcf(D, gcases, "in_gap.vcf")
        extra = ([] if prog == "call-pedigree" else ["--inbreeding", "0.3"]) + ["--filter-input-haplotypes", fstr] + (D.pedigree_files() if prog == "call-pedigree" else [])
        tagp = "%s|filter=%s|freq=None|field-less records interleaved" % (prog, fstr)
        try:
            out = stddata.run(D.call_args(prog, hv2, report=["AFP", "AFPRIOR"], extra=extra))
            env.quiet()
            check_output(r, payload, prog, out, gcases, tuple(flt), None, False, tagp)
        except Exception as e:  # noqa
            e = synth.root_cause(e)
            r.violation("prog-exception|%s|%s" % (prog, type(e).__name__), "run aborted: %s: %s (%s)" % (type(e).__name__, str(e)[:200], tagp), payload)
            env.quiet()
    r.sample({"program": prog, "filter": fstr, "records": len(cases)})
    return r


def job_progint(job):
    """Integer typed fields: 'any numerical field of length R' as prior, Integer A-field as filter"""
    _, prog, _ = job
    r = Result()
    payload = {"kind": "job", "job": job}
    d = env.scratch_dir("c16i")
    D = stddata.Data(d)
    cases = [(xr, m) for xr in itertools.product([0, 1, 5], repeat=3) for m in (0, 1)]
    hv = make_vcf(D, cases, "in_i.vcf", integer=True)
    for tag, flt in (("XRI", None), ("XRI", ("XAI", ">=", "1")), (None, ("XRI", ">", "0")), ("XRI", ("XRI", "!=", "5"))):
        extra = [] if prog == "call-pedigree" else ["--inbreeding", "0.3"]
        if tag:
            extra += ["--prior-frequencies", tag]
        fstr = None if flt is None else "%s%s%s" % flt
        if fstr:
            extra += ["--filter-input-haplotypes", fstr]
        if prog == "call-pedigree":
            extra += D.pedigree_files()
        tagp = "%s|filter=%s|freq=%s" % (prog, fstr, tag)
        try:
            out = stddata.run(D.call_args(prog, hv, report=["AFP", "ACP", "AOP", "GP", "AFPRIOR"], extra=extra))
        except Exception as e:  # noqa
            e = synth.root_cause(e)
            r.violation("prog-exception|%s|%s" % (prog, type(e).__name__), "run aborted: %s: %s (%s)" % (type(e).__name__, str(e)[:200], tagp), payload)
            env.quiet()
            continue
        env.quiet()
        check_output(r, payload, prog, out, [(tuple(float(x) for x in xr), m) for xr, m in cases], flt, tag, True, tagp)
    r.sample({"program": prog, "integer_fields": True})
    return r
