"""C09  Likelihood caches are transparent; the carried likelihood always equals the recomputed one.

1. array_map as an explicit-state machine: BFS over all set/get histories with tiny sizes that force
   growth and flushes, against a dict.
2. assemble sampler: all (move, answer) histories of a two-chain system (cold + heated chain sharing
   one cache, with exchange moves) executed in lock-step under three cache configurations.
3. call: cached likelihood over all call orders; jitted sampler traces.
4. call-pedigree: a caller-supplied cache is inspected after *every* Gibbs / MH / exchange call."""
import collections
import itertools
import math

import numpy as np

from ..result import Result
from .. import refmodel as ref
from .. import kasm
from ..seams import Oracle, NumpyProxy, patched

META = {
    "level": "model_checking",
    "rule": "array_map: states = canonical bytes of the (tree, values, counters) tuple, transitions = set(key,v) for every key and 2 values, "
    "every key is read back after every transition; sampler: states = (cold genotype, warm genotype, tiny-cache contents), transitions = "
    "(chain, move, forced answer) executed in three cache configurations in lock-step; pedigree: every cache entry re-checked after every call; "
    "non-trivial = states reached after at least one insertion",
    "bound": {"quick": "array_map: 6 configurations (L<=3, branches<=3, initial 2..4, max 4..16), depth 4..7 per configuration; sampler histories depth 3 (P=2,(2,2)) and 2 (P=3,(2,2),(3,2)); "
                       "pedigree: 5 shapes x 4 read profiles, all joint states",
              "thorough": "array_map depth 5..8; sampler depth 4 / 3; DenovoMCMC 12-SNV flat-read run overflowing the 2^16-node cache"},
    "assumptions": ["array_map canonical form = exact bytes of every component (no abstraction: two states merge only if bit-identical)",
                    "jitted DenovoMCMC runs with cache thresholds {-1,0,100} must produce byte-identical traces for a seed"],
    "trusted_base": ["python dict as reference map", "vmc/refmodel.llk"],
}

AM_CONFIGS = [(2, 2, 2, 8), (2, 2, 2, 4), (3, 2, 2, 8), (2, 3, 2, 16), (3, 2, 4, 16), (2, 2, 3, 6)]
AM_DEPTH = {(2, 2, 2, 8): 6, (2, 2, 2, 4): 7, (3, 2, 2, 8): 5, (2, 3, 2, 16): 4, (3, 2, 4, 16): 4, (2, 2, 3, 6): 6}


def warm(tier):
    from mchap.assemble import arraymap, mutation, structural, tempering
    from mchap.assemble.likelihood import log_likelihood, new_log_likelihood_cache
    from mchap.assemble.mcmc import DenovoMCMC, _denovo_assembler
    import mchap.pedigree.mcmc as pm
    from ..kped import Pedigree
    from .c18 import common_args

    m = arraymap.new(2, 2, initial_size=2, max_size=8)
    m = arraymap.set(m, np.array([0, 1], np.int8), -1.0, empty_if_full=True)
    arraymap.get(m, np.array([0, 1], np.int8))
    inst = kasm.Instance(2, (2, 2), 0, 0)
    g = kasm.as_array(inst.states[1])
    llk = log_likelihood(inst.reads, g, read_counts=inst.counts)
    for cache in (None, new_log_likelihood_cache(2, 2, 2), arraymap.new(4, 2, initial_size=2, max_size=8)):
        mutation.base_step(g.copy(), inst.reads, llk, 0, 0, 2, inst.luh, 0.1, 0.5, inst.counts, cache)
        structural.interval_step(g.copy(), inst.reads, llk, inst.luh, 0.1, np.array([0, 1]), 0, 0.5, inst.counts, cache)
    for thr in (-1, 0):
        DenovoMCMC(ploidy=2, n_alleles=[2, 2], steps=5, random_seed=1, temperatures=(0.5, 1.0), llk_cache_threshold=thr, fix_homozygous=2.0, inbreeding=0.1).fit(inst.reads, inst.counts)
        _denovo_assembler(genotype=g.copy(), inbreeding=0.1, reads=inst.reads, read_counts=inst.counts, n_alleles=np.array([2, 2], np.int8), steps=3,
                          break_dist=np.array([0.5, 0.5]), recombination_step_probability=0.5, partial_dosage_step_probability=0.5,
                          dosage_step_probability=1.0, temperatures=np.array((0.5, 1.0)), return_heated_trace=True, llk_cache_threshold=thr)
    ped = Pedigree("trio")
    st = next(iter(ped.states()))
    G = ped.genotype_array(st)
    ch = ped.children()
    a = common_args(ped, ch)
    pm.gibbs_probabilities(2, 0, G, *a, ped.new_cache(), *ped.scratch())
    pm.metropolis_hastings_probabilities(2, 0, G, *a, ped.new_cache(), *ped.scratch())
    from mchap.calling.classes import CallingMCMC
    from ..kcall import CallInstance

    ci = CallInstance(3, 2, "skew", 0.1, 0)
    for stype in ("Gibbs", "Metropolis-Hastings"):
        CallingMCMC(ploidy=2, haplotypes=ci.haps, frequencies=ci.farr, inbreeding=0.1, steps=3, chains=1, random_seed=1, step_type=stype).fit(ci.R, ci.C)


def plan(tier, seed):
    jobs = []
    for cfg in AM_CONFIGS:
        jobs.append(("amap", cfg, AM_DEPTH[cfg] + (0 if tier == "quick" else 1), 400000 if cfg[3] >= 16 else 50000))
    hist = [((2, (2, 2)), 3), ((3, (2, 2)), 2), ((2, (3, 2)), 2)] if tier == "quick" else [((2, (2, 2)), 4), ((3, (2, 2)), 3), ((2, (3, 2)), 3), ((3, (2, 2, 2)), 3), ((4, (2, 2)), 2), ((2, (2, 2, 2)), 3)]
    for (P, A), d in hist:
        inst = kasm.Instance(P, A, 0, seed)
        n_opt = 2 * (P * len(A) + 2 * (2 if len(A) == 2 else 3)) + 1
        for si in range(len(inst.states)):
            if d >= 3:
                for first in range(n_opt):
                    jobs.append(("lock", (P, A, 0, seed), si, d, first, 20 ** d // n_opt))
            else:
                jobs.append(("lock", (P, A, 0, seed), si, d, -1, 20 ** d))
    for k in range(7 if tier == "quick" else 13):
        jobs.append(("denovo", k, seed, tier == "thorough" and k == 0, 30000))
    jobs.append(("call", seed, 20000))
    for name in ("trio", "mixed_2_4_3", "tau_1_3", "halfsibs", "duo_unbalanced"):
        for rp in range(4):
            jobs.append(("ped", name, rp, seed, 40000))
    jobs.sort(key=lambda j: -j[-1])
    return jobs


def run_job(job):
    return {"amap": job_amap, "lock": job_lock, "denovo": job_denovo, "call": job_call, "ped": job_ped}[job[0]](job)


# --------------------------------------------------------------------------- 1. array_map
def job_amap(job):
    from mchap.assemble import arraymap

    _, (L, b, init, mx), depth, _ = job
    r = Result()
    payload = {"kind": "job", "job": job}
    tag = "L=%d|branches=%d|initial=%d|max=%d" % (L, b, init, mx)
    keys = [np.array(k, np.int8) for k in itertools.product(range(b), repeat=L)]
    vals = (-1.5, -2.5)

    def key_of(m):
        tree, values, l_, en, ev, mx_ = m
        return (tree.tobytes(), tree.shape, values.tobytes(), l_, en, ev, mx_)

    def copy(m):
        tree, values, l_, en, ev, mx_ = m
        return (tree.copy(), values.copy(), l_, en, ev, mx_)

    m0 = arraymap.new(L, b, initial_size=init, max_size=mx)
    for k in keys:
        if not math.isnan(arraymap.get(m0, k)):
            r.violation("amap-empty|" + tag, "new map returns a value", payload)
    seen = {key_of(m0)}
    frontier = collections.deque([(m0, {}, 0, ())])
    flushes = grows = 0
    while frontier:
        m, refd, d, hist = frontier.popleft()
        if d >= depth:
            r.cap_reached = True
            continue
        for ki, k in enumerate(keys):
            for v in vals:
                m2 = copy(m)
                size_before = (len(m2[0]), len(m2[1]))
                m3 = arraymap.set(m2, k, v, empty_if_full=True)
                r.transitions += 1
                r.evaluations += 1
                flushed = m3[3] == 1 and m3[4] == 0
                h2 = hist + ((tuple(int(x) for x in k), v),)
                if flushed:
                    ref2 = {}
                    flushes += 1
                    if (m3[0] != -1).any() or not np.isnan(m3[1]).all():
                        r.violation("amap-flush|" + tag, "a flush left nodes/values behind after history %r" % (h2,), {"kind": "amap", "cfg": [L, b, init, mx], "history": h2})
                else:
                    ref2 = dict(refd)
                    ref2[ki] = v
                if (len(m3[0]), len(m3[1])) != size_before:
                    grows += 1
                for kj, kk in enumerate(keys):
                    g = arraymap.get(m3, kk)
                    if kj in ref2:
                        if not (g == ref2[kj]):
                            r.violation("amap-get|%s|kind=%s" % (tag, "stale" if not math.isnan(g) else "lost"),
                                        "after history %r get(%r) = %r, reference map has %r" % (h2, kk.tolist(), g, ref2[kj]), {"kind": "amap", "cfg": [L, b, init, mx], "history": h2})
                    elif not math.isnan(g):
                        r.violation("amap-get|%s|kind=phantom" % tag, "after history %r get(%r) = %r but the key was never set (or was flushed)" % (h2, kk.tolist(), g),
                                    {"kind": "amap", "cfg": [L, b, init, mx], "history": h2})
                if not (1 <= m3[3] < len(m3[0]) and 0 <= m3[4] < len(m3[1])):
                    r.violation("amap-counters|" + tag, "counters outside the arrays after %r: %r" % (h2, (m3[3], len(m3[0]), m3[4], len(m3[1]))), {"kind": "amap", "cfg": [L, b, init, mx], "history": h2})
                kk_ = key_of(m3)
                if kk_ not in seen:
                    seen.add(kk_)
                    frontier.append((m3, ref2, d + 1, h2))
                    if d + 1 >= 1:
                        r.nontrivial += 1
    r.states += len(seen)
    r.count("amap_flushes", flushes)
    r.count("amap_grows", grows)
    r.outcome((tag, len(seen), flushes, grows))
    if flushes == 0 or grows == 0:
        r.note("configuration %s: flushes=%d grows=%d" % (tag, flushes, grows))
    r.sample({"array_map": tag, "depth": depth, "states": len(seen), "flushes": flushes, "grows": grows}, cap=1)
    return r


def replay(payload):
    from ..run import _generic_replay
    import sys

    if payload.get("kind") == "amap":
        from mchap.assemble import arraymap

        L, b, init, mx = payload["cfg"]
        r = Result()
        m = arraymap.new(L, b, initial_size=init, max_size=mx)
        refd = {}
        for k, v in payload["history"]:
            m = arraymap.set(m, np.array(k, np.int8), v, empty_if_full=True)
            if m[3] == 1 and m[4] == 0:
                refd = {}
            else:
                refd[tuple(k)] = v
            for kk in itertools.product(range(b), repeat=L):
                g = arraymap.get(m, np.array(kk, np.int8))
                want = refd.get(tuple(kk), float("nan"))
                r.evaluations += 1
                if not (g == want or (math.isnan(g) and math.isnan(want))):
                    r.violation("amap-get|replay", "get(%r)=%r, reference %r" % (kk, g, want), payload)
        return r
    return _generic_replay(sys.modules[__name__], payload)


# --------------------------------------------------------------------------- 2. assemble lock-step histories
def cache_items(cache, keys):
    from mchap.assemble import arraymap

    if cache is None:
        return ()
    out = []
    for k in keys:
        v = arraymap.get(cache, k)
        if not math.isnan(v):
            out.append((k.tobytes(), float(v)))
    return tuple(out)


def job_lock(job):
    from mchap.assemble import arraymap, mutation, structural, tempering
    from mchap.assemble import likelihood as lk
    from mchap.assemble.likelihood import log_likelihood, new_log_likelihood_cache

    _, spec, si, depth, first, _ = job
    inst = kasm.Instance(*spec)
    r = Result()
    payload = {"kind": "job", "job": job}
    P, nb = inst.ploidy, inst.n_base
    F = 0.2
    temps = (1.0, 0.5)
    tag = inst.name() + "|init=%d" % si
    all_keys = [np.array(k, np.int8) for k in itertools.product(range(max(inst.n_alleles)), repeat=P * nb)
                if all(k[h * nb + j] < inst.n_alleles[j] for h in range(P) for j in range(nb))]
    intervals = [(0, 1), (0, nb)] if nb == 2 else [(0, 1), (1, nb), (0, nb)]
    moves = [("base", h, j) for h in range(P) for j in range(nb)] + [("iv", iv, st) for iv in intervals for st in (0, 1)]

    # monitor every return of the cached wrappers
    real_c, real_sc = lk.log_likelihood_cached, lk.log_likelihood_structural_change_cached
    bad_returns = []

    def mon_c(reads, genotype, read_counts=None, cache=None, **kw):
        v, c2 = real_c(reads, genotype, read_counts, cache)
        fresh = log_likelihood(reads, genotype, read_counts)
        if not (abs(v - fresh) <= 1e-9 * max(1, abs(fresh))):
            bad_returns.append(("log_likelihood_cached", genotype.tolist(), float(v), float(fresh)))
        return v, c2

    def mon_sc(reads, genotype, haplotype_indices, interval=None, read_counts=None, cache=None):
        v, c2 = real_sc(reads, genotype, haplotype_indices, interval, read_counts, cache)
        g2 = genotype.copy()
        from mchap.jitutils import structural_change

        structural_change(g2, haplotype_indices, interval)
        fresh = log_likelihood(reads, g2, read_counts)
        if not (abs(v - fresh) <= 1e-9 * max(1, abs(fresh))):
            bad_returns.append(("log_likelihood_structural_change_cached", g2.tolist(), float(v), float(fresh)))
        return v, c2

    def fresh_caches():
        return [None, arraymap.new(P * nb, max(inst.n_alleles), initial_size=2, max_size=8), new_log_likelihood_cache(P, nb, max(inst.n_alleles))]

    def copy_cache(c):
        if c is None:
            return None
        return (c[0].copy(), c[1].copy(), c[2], c[3], c[4], c[5])

    def apply(cfgs, chain, move, answer):
        """apply one move with a forced answer in all three configurations; returns new cfgs, seam vectors"""
        new, seams_v = [], []
        for (gs, ls, cache) in cfgs:
            gs = [g.copy() for g in gs]
            ls = list(ls)
            cache = copy_cache(cache)
            o = Oracle([answer])
            if move[0] == "base":
                with patched((mutation, "random_choice", o.random_choice), (mutation, "log_likelihood_cached", mon_c)):
                    ls[chain], cache = mutation.base_step.py_func(gs[chain], inst.reads, ls[chain], move[1], move[2], inst.n_alleles[move[2]], inst.luh, F, temps[chain], inst.counts, cache)
            elif move[0] == "iv":
                with patched((structural, "random_choice", o.random_choice), (structural, "log_likelihood_structural_change_cached", mon_sc)):
                    ls[chain], cache = structural.interval_step.py_func(gs[chain], inst.reads, ls[chain], inst.luh, F, np.array(move[1]), move[2], temps[chain], inst.counts, cache)
            else:  # swap
                o = Oracle([answer], rand_values=(0.0, 1.0 - 2.0 ** -53))
                with patched((tempering, "np", NumpyProxy(o))):
                    ls[0], ls[1] = tempering.chain_swap_step.py_func(gs[0], ls[0], temps[0], gs[1], ls[1], temps[1], inst.luh, F)
            new.append((gs, ls, cache))
            seams_v.append([(e[0], e[1], e[3]) for e in o.log])
        return new, seams_v

    g0 = kasm.as_array(inst.states[si])
    l0 = float(log_likelihood(inst.reads, g0, inst.counts))
    start = [([g0.copy(), g0.copy()], [l0, l0], c) for c in fresh_caches()]
    seen = set()
    n_flush = 0

    def canon_state(cfgs):
        gs, ls, tiny = cfgs[1]
        return (gs[0].tobytes(), gs[1].tobytes(), cache_items(tiny, all_keys))

    def rec(cfgs, d, hist):
        nonlocal n_flush
        key = canon_state(cfgs)
        if (key, d) in seen:
            return
        seen.add((key, d))
        r.states += 1
        if d > 0:
            r.nontrivial += 1
        if d >= depth:
            return
        options = [(c, m) for c in (0, 1) for m in moves] + [(0, ("swap",))]
        if d == 0 and first >= 0:
            options = options[first:first + 1]
        for chain, move in options:
            # discover arity with a default run, then force every answer
            probe, seams0 = apply(cfgs, chain, move, 0)
            arity = seams0[0][0][1] if seams0[0] else 1
            for ans in range(arity):
                if seams0[0] and seams0[0][0][2] is not None and seams0[0][0][2][ans] <= 0:
                    continue
                if ans == 0:
                    new, seams_v = probe, seams0
                else:
                    new, seams_v = apply(cfgs, chain, move, ans)
                r.transitions += 1
                r.evaluations += 3
                h2 = hist + ((chain, move, ans),)
                # identical probability vectors in the three configurations
                if not (seams_v[0] == seams_v[1] == seams_v[2]):
                    r.violation("lock-seam|%s|move=%s" % (tag, move[0]), "seam vectors differ between cache configurations after %r: %r" % (h2, seams_v),
                                payload)
                gref = [g.tolist() for g in new[0][0]]
                for ci, (gs, ls, cache) in enumerate(new):
                    if [g.tolist() for g in gs] != gref:
                        r.violation("lock-trajectory|%s|cfg=%d" % (tag, ci), "genotypes diverge between cache configurations after %r" % (h2,), payload)
                    for c in (0, 1):
                        want = inst.llk(kasm.canon(gs[c]))
                        if abs(ls[c] - want) > 1e-9 * max(1, abs(want)):
                            r.violation("lock-carried|%s|cfg=%d|move=%s" % (tag, ci, move[0]),
                                        "after %r chain %d carries llk %.12g, recomputed %.12g" % (h2, c, ls[c], want), payload)
                    # cache contents: every stored value is the fresh likelihood of that key
                    if cache is not None:
                        for kb, v in cache_items(cache, all_keys):
                            karr = np.frombuffer(kb, np.int8).reshape(P, nb)
                            want = inst.llk(kasm.canon(karr))
                            if abs(v - want) > 1e-9 * max(1, abs(want)):
                                r.violation("lock-cache|%s|cfg=%d" % (tag, ci), "after %r the cache maps %r to %.12g, fresh likelihood %.12g" % (h2, karr.tolist(), v, want), payload)
                if bad_returns:
                    nm, g, v, fresh = bad_returns[0]
                    r.violation("lock-served|%s|%s" % (tag, nm), "after %r %s returned %.12g for %r, fresh %.12g" % (h2, nm, v, g, fresh), payload)
                    bad_returns.clear()
                tiny_before, tiny_after = cfgs[1][2], new[1][2]
                if tiny_after[3] == 1 and tiny_after[4] == 0 and not (tiny_before[3] == 1 and tiny_before[4] == 0):
                    n_flush += 1
                r.outcome((move[0], ans, [g.tolist() for g in new[0][0]]))
                rec(new, d + 1, h2)

    rec(start, 0, ())
    r.count("tiny_cache_flushes", n_flush)
    r.sample({"lock_step": tag, "depth": depth, "states": r.states, "transitions": r.transitions, "tiny_cache_flushes": n_flush}, cap=1)
    return r


# --------------------------------------------------------------------------- 2b. jitted DenovoMCMC
def job_denovo(job):
    from mchap.assemble.mcmc import DenovoMCMC, _denovo_assembler
    from mchap.assemble.likelihood import log_likelihood
    from mchap.jitutils import seed_numba

    _, k, seed, big, _ = job
    r = Result()
    payload = {"kind": "job", "job": job}
    cfgs = [(2, (2, 2, 2), (1.0,)), (3, (2, 2, 2), (0.0, 0.5, 1.0)), (4, (2, 2, 2), (0.3, 1.0)), (4, (2, 3, 2, 2), (0.1, 0.5, 1.0)), (3, (3, 2), (0.5, 1.0)), (6, (2, 2), (1.0,)), (4, (2, 2, 2, 2, 2), (0.05, 0.3, 1.0)),
            (2, (2, 2), (0.5, 1.0)), (3, (2, 2, 2), (0.2, 0.6, 1.0)), (4, (3, 3), (1.0,)), (5, (2, 2, 2), (0.4, 1.0)), (4, (2, 2), (0.01, 1.0)), (2, (3, 3, 2), (0.7, 1.0))]
    P, A, temps = cfgs[k % len(cfgs)]
    inst = kasm.Instance(P, A, 1, seed + k)
    tag = "P=%d|A=%s|temps=%s" % (P, A, temps)
    steps = 300
    traces = {}
    for thr in (-1, 0, 100):
        t = DenovoMCMC(ploidy=P, n_alleles=list(A), steps=steps, chains=2, random_seed=11 + seed, temperatures=temps, fix_homozygous=2.0,
                       llk_cache_threshold=thr, inbreeding=0.1).fit(inst.reads, inst.counts)
        traces[thr] = (t.genotypes.copy(), t.llks.copy())
        r.evaluations += 1
    for thr in (0, 100):
        if not (np.array_equal(traces[-1][0], traces[thr][0]) and np.allclose(traces[-1][1], traces[thr][1], rtol=1e-12, atol=1e-12)):
            i = int(np.argmax((traces[-1][0] != traces[thr][0]).any(axis=(0, 2, 3)))) if traces[-1][0].shape == traces[thr][0].shape else -1
            r.violation("denovo-cache-trajectory|%s|threshold=%d" % (tag, thr), "trace differs from the uncached run for the same seed (first differing step %d)" % i, payload)
    for thr, (G, Lk) in traces.items():
        for c in range(G.shape[0]):
            for i in range(G.shape[1]):
                want = inst.llk(kasm.canon(G[c, i]))
                r.traces += 1
                if abs(Lk[c, i] - want) > 1e-9 * max(1, abs(want)):
                    r.violation("denovo-trace-llk|%s|threshold=%d" % (tag, thr), "chain %d step %d: recorded llk %.12g, recomputed %.12g for %r" % (c, i, Lk[c, i], want, G[c, i].tolist()), payload)
                    break
    # heated traces straight from the assembler
    if len(temps) > 1:
        for thr in (-1, 0):
            seed_numba(5 + seed)
            np.random.seed(5 + seed)
            g0 = kasm.as_array(inst.states[len(inst.states) // 2])
            G, Lk = _denovo_assembler(genotype=g0, inbreeding=0.1, reads=inst.reads, read_counts=inst.counts, n_alleles=np.array(A, np.int8), steps=150,
                                      break_dist=np.array([0.5, 0.5]) if len(A) > 1 else np.array([1.0]), recombination_step_probability=0.5, partial_dosage_step_probability=0.5,
                                      dosage_step_probability=1.0, temperatures=np.array(temps), return_heated_trace=True, llk_cache_threshold=thr)
            for c in range(G.shape[0]):
                for i in range(G.shape[1]):
                    want = inst.llk(kasm.canon(G[c, i]))
                    r.traces += 1
                    if abs(Lk[c, i] - want) > 1e-9 * max(1, abs(want)):
                        r.violation("denovo-heated-llk|%s|threshold=%d" % (tag, thr), "temperature %d step %d: carried llk %.12g, recomputed %.12g" % (c, i, Lk[c, i], want), payload)
                        break
    r.nontrivial += 3
    r.outcome((tag, traces[-1][0][:, -1].tolist()))
    if big:
        # 12 SNVs, tetraploid, flat reads: the sampler wanders and overflows the 2^16-node cache
        n = 12
        reads = np.full((2, n, 2), 0.5)
        reads[1, :, 0] = 0.6
        reads[1, :, 1] = 0.4
        res = {}
        for thr in (-1, 0):
            t = DenovoMCMC(ploidy=4, n_alleles=[2] * n, steps=1500, chains=1, random_seed=3, fix_homozygous=2.0, llk_cache_threshold=thr).fit(reads, np.array([1, 2]))
            res[thr] = t
            r.evaluations += 1
        if not np.array_equal(res[-1].genotypes, res[0].genotypes):
            r.violation("denovo-overflow-trajectory", "12-SNV run differs between cached and uncached for the same seed", payload)
        for i in range(0, 1500, 7):
            g = res[0].genotypes[0, i]
            want = float(log_likelihood(reads, g, np.array([1, 2])))
            if abs(res[0].llks[0, i] - want) > 1e-9 * max(1, abs(want)):
                r.violation("denovo-overflow-llk", "step %d llk %.12g, recomputed %.12g" % (i, res[0].llks[0, i], want), payload)
                break
        r.note("12-SNV overflow run: %d distinct genotypes visited" % len({res[0].genotypes[0, i].tobytes() for i in range(1500)}))
    r.sample({"DenovoMCMC": tag, "steps": steps, "cache_thresholds": [-1, 0, 100]}, cap=1)
    return r


# --------------------------------------------------------------------------- 3. call
def job_call(job):
    import numba
    from mchap.calling.likelihood import log_likelihood_alleles_cached
    from ..kcall import CallInstance

    _, seed, _ = job
    r = Result()
    payload = {"kind": "job", "job": job}
    for (H, P) in ((3, 2), (3, 3), (4, 3), (4, 4), (5, 2)):
        inst = CallInstance(H, P, "skew", 0.1, seed)
        # all call orders of all permutations of two genotypes sharing a cache
        gens = inst.gens
        for ga, gb in itertools.islice(itertools.combinations(gens, 2), 0, 400, 3):
            perms = sorted(set(itertools.permutations(ga)))[:6] + sorted(set(itertools.permutations(gb)))[:6]
            for order in (perms, perms[::-1]):
                cache = numba.typed.Dict.empty(numba.types.int64, numba.types.float64)
                cache[-1] = np.nan
                for g in order:
                    v = log_likelihood_alleles_cached(inst.R, inst.C, inst.haps, np.array(g), cache)
                    want = inst.llk(g)
                    r.evaluations += 1
                    r.transitions += 1
                    if abs(v - want) > 1e-9 * max(1, abs(want)):
                        r.violation("call-cache|H=%d|P=%d" % (H, P), "after calls %r the cache served %.12g for %r, fresh %.12g" % (order[: order.index(g) + 1], v, g, want), payload)
                        break
                r.states += 1
        r.nontrivial += 1
        r.outcome((H, P))
        # one model object fitted to sample A and then to sample B must give B's own trace and likelihoods
        from mchap.calling.classes import CallingMCMC

        instB = CallInstance(H, P, "skew", 0.1, seed, read_variant=1)
        for stype in ("Gibbs", "Metropolis-Hastings"):
            fresh = CallingMCMC(ploidy=P, haplotypes=inst.haps, frequencies=inst.farr, inbreeding=0.1, steps=80, chains=2, random_seed=5, step_type=stype).fit(instB.R, instB.C)
            model = CallingMCMC(ploidy=P, haplotypes=inst.haps, frequencies=inst.farr, inbreeding=0.1, steps=80, chains=2, random_seed=5, step_type=stype)
            model.fit(inst.R, inst.C)
            again = model.fit(instB.R, instB.C)
            r.evaluations += 1
            r.transitions += 2
            if not np.array_equal(fresh.genotypes, again.genotypes):
                r.violation("call-model-reuse|H=%d|P=%d|%s" % (H, P, stype), "fit(B) after fit(A) on the same model object differs from fit(B) on a fresh model", payload)
            for c in range(again.genotypes.shape[0]):
                for i in range(again.genotypes.shape[1]):
                    want = instB.llk(tuple(int(x) for x in again.genotypes[c, i]))
                    r.traces += 1
                    if abs(again.llks[c, i] - want) > 1e-9 * max(1, abs(want)):
                        r.violation("call-model-reuse-llk|H=%d|P=%d|%s" % (H, P, stype), "after refitting, step %d carries llk %.12g; sample B's own reads give %.12g" % (i, again.llks[c, i], want), payload)
                        break
    r.sample({"call_cache": True, "instances": [(3, 2), (3, 3), (4, 3), (4, 4), (5, 2)]}, cap=1)
    return r


# --------------------------------------------------------------------------- 4. call-pedigree
def job_ped(job):
    import mchap.pedigree.mcmc as pm
    from ..kped import Pedigree
    from .c18 import common_args

    _, name, rp, seed, _ = job
    ped = Pedigree(name, seed, None, rp)
    r = Result()
    payload = {"kind": "job", "job": job}
    tag = "%s|reads=%s" % (name, ped.n_reads)
    ch = ped.children()
    a = common_args(ped, ch)
    pairs, blankets = pm.parental_pair_markov_blankets(ped.parents, ch)
    sc = ped.scratch()
    cache = ped.new_cache()
    known = 0

    def audit(what):
        nonlocal known
        if len(cache) == known:
            return True
        known = len(cache)
        bad = ped.check_cache(cache)
        if bad:
            s, g, v, fresh = bad[0]
            r.violation("ped-cache|%s|op=%s|sample=%d" % (tag, what.split(":")[0], s),
                        "after %s the cache holds %.12g for sample %d genotype %r; likelihood on that sample's own reads is %.12g" % (what, v, s, g, fresh), payload)
            return False
        return True

    ok = True
    shared = cache
    total_entries = 0
    for si, state in enumerate(ped.states()):
        if not ok:
            break
        if ped.log_joint(state) == -math.inf:
            continue
        r.states += 1
        r.nontrivial += 1
        G = ped.genotype_array(state)
        # history per state: exchange on an empty cache, allele updates, exchange again on the populated cache;
        # every third state continues on a cache shared across states (long histories)
        cache = shared if si % 3 == 0 else ped.new_cache()
        known = len(cache)
        for phase in (0, 1, 2):
            if phase in (0, 2):
                for pi in range(len(pairs)):
                    p, q = int(pairs[pi, 0]), int(pairs[pi, 1])
                    for ip in range(int(ped.ploidy[p])):
                        for iq in range(int(ped.ploidy[q])):
                            G2 = G.copy()
                            o = Oracle([ip, iq, 0], rand_values=(0.0,))
                            with patched((pm, "np", NumpyProxy(o))):
                                pm.pair_allele_swap_step.py_func(p, q, blankets[pi], G2, ped.ploidy, ped.parents, ped.tau, ped.lam, ped.err, ped.read_dists,
                                                                 ped.read_counts, ped.haps, ped.logf, cache, *sc)
                            r.evaluations += 1
                            r.transitions += 1
                            ok = ok and audit("exchange:pair=%s slots=%s state=%s phase=%d" % ((p, q), (ip, iq), state, phase))
            else:
                for t in range(ped.n):
                    for k in range(int(ped.ploidy[t])):
                        pm.gibbs_probabilities(t, k, G, *a, cache, *sc)
                        ok = ok and audit("gibbs:target=%d slot=%d state=%s" % (t, k, state))
                        pm.metropolis_hastings_probabilities(t, k, G, *a, cache, *sc)
                        ok = ok and audit("mh:target=%d slot=%d state=%s" % (t, k, state))
                        r.evaluations += 2
                        r.transitions += 2
        total_entries += len(cache) if cache is not shared else 0
    cache = shared
    r.count("ped_cache_entries_fresh_histories", total_entries)
    r.count("ped_cache_entries", len(cache))
    r.outcome((tag, len(cache)))
    r.sample({"pedigree_cache": tag, "entries": len(cache), "joint_states": r.states}, cap=1)
    return r
