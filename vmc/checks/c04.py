"""C04  Read likelihood: mixture semantics and symmetries (bounded exhaustive input enumeration)."""
import itertools
import math

import numpy as np

from ..result import Result
from .. import refmodel as ref

META = {
    "level": "exploration",
    "rule": "per-site read alphabet {gap, confident call of each allele at q in {0.9,0.999}, flat, non-listed base}; read sets = all "
    "multisets of <= R reads over the product alphabet; all unordered genotypes (and all orderings for the symmetry clause); "
    "all rearrangement index vectors {0..P-1}^P x all intervals incl. None; a case is (n_alleles, read set, counts, genotype[, "
    "index vector, interval]); non-trivial when the genotype has >= 2 haplotypes or the read set has >= 2 reads",
    "bound": {"quick": "P<=3, n_alleles in {(2),(3),(2,2),(2,3),(3,2)}, <=2 reads, counts {1,2,3}",
              "thorough": "P<=4, adds (3,3),(2,2,2),(2,3,2); <=3 reads on the 1-SNV shapes"},
    "assumptions": ["reference: literal triple loop with math.log, NaN cell = factor one", "comparison rtol 1e-12 (same operation order is not assumed: atol 1e-12 * |llk|)"],
    "trusted_base": ["vmc/refmodel.llk"],
}

MAXA = 3


def site_alphabet(a):
    out = [("gap", [float("nan")] * MAXA)]
    for q in (0.9, 0.999):
        for c in range(a):
            v = [(1 - q) / 3 if k < a else 0.0 for k in range(MAXA)]
            v[c] = q
            out.append(("%d@%g" % (c, q), v))
    out.append(("flat", [1.0 / a if k < a else 0.0 for k in range(MAXA)]))
    out.append(("other", [0.1 / 3 if k < a else 0.0 for k in range(MAXA)]))
    return out


def read_alphabet(n_alleles):
    sites = [site_alphabet(a) for a in n_alleles]
    out = []
    for combo in itertools.product(*sites):
        out.append(("/".join(c[0] for c in combo), [c[1] for c in combo]))
    return out


def shapes(tier):
    s = [(2,), (3,), (2, 2), (2, 3), (3, 2)]
    if tier == "thorough":
        s += [(3, 3), (2, 2, 2), (2, 3, 2)]
    return s


def warm(tier):
    from mchap.assemble.likelihood import (log_likelihood, log_likelihood_structural_change, log_likelihood_cached,
                                           log_likelihood_structural_change_cached, new_log_likelihood_cache)
    from mchap.calling.likelihood import log_likelihood_alleles, log_likelihood_alleles_cached
    from mchap.pedigree.likelihood import log_likelihood_alleles_cached as ped_cached
    from mchap.jitutils import structural_change
    import numba

    R = np.array([[[0.9, 0.05, 0.0], [0.5, 0.5, 0.0]]])
    C = np.array([2])
    g = np.array([[0, 0], [1, 1]], np.int8)
    for c in (None, C):
        log_likelihood(R, g, c)
        log_likelihood_structural_change(R, g, np.array([1, 0]), np.array([0, 1]), c)
        log_likelihood_structural_change(R, g, np.array([1, 0]), None, c)
        cache = new_log_likelihood_cache(2, 2, 3)
        log_likelihood_cached(R, g, c, cache)
        log_likelihood_cached(R, g, c, None)
        log_likelihood_structural_change_cached(R, g, np.array([1, 0]), np.array([0, 1]), c, cache)
        log_likelihood_structural_change_cached(R, g, np.array([1, 0]), None, c, None)
    haps = np.array([[0, 0], [1, 1]], np.int8)
    log_likelihood_alleles(R, C, haps, np.array([0, 1]))
    d = numba.typed.Dict.empty(numba.types.int64, numba.types.float64)
    log_likelihood_alleles_cached(R, C, haps, np.array([0, 1]), d)
    log_likelihood_alleles_cached(R, C, haps, np.array([0, 1]), None)
    pd = numba.typed.Dict.empty(numba.types.UniTuple(numba.types.int64, 2), numba.types.float64)
    ped_cached(R, C, haps, 0, np.array([0, 1]), pd)
    ped_cached(R, C, haps, 0, np.array([0, 1]), None)
    structural_change(g.copy(), np.array([1, 0]), np.array([0, 1]))


def plan(tier, seed):
    jobs = []
    maxP = 3 if tier == "quick" else 4
    for A in shapes(tier):
        n_letters = len(read_alphabet(A))
        maxR = 2
        if tier == "thorough" and n_letters <= 9:
            maxR = 3
        for P in range(1, maxP + 1):
            # split the read-set space by first letter to get parallelism
            nchunks = min(n_letters, 16)
            for ch in range(nchunks):
                jobs.append(("llk", A, P, maxR, ch, nchunks, n_letters ** maxR * P))
            jobs.append(("sym", A, P, n_letters * math.factorial(P)))
            jobs.append(("struct", A, P, seed, P ** P * 50))
    if tier == "quick":
        # more SNVs than haplotypes (the default interval must span all n_base columns, not `ploidy` of them)
        jobs.append(("struct", (2, 2, 2), 2, seed, 3000))
        jobs.append(("struct", (2, 3, 2, 2), 2, seed, 6000))
    jobs.sort(key=lambda j: -j[-1])
    return jobs


def run_job(job):
    return {"llk": job_llk, "sym": job_sym, "struct": job_struct}[job[0]](job)


def close(a, b):
    if a == b:
        return True
    if math.isinf(a) or math.isinf(b):
        return False
    return abs(a - b) <= 1e-11 * max(1.0, abs(a), abs(b))


def to_ref(reads):
    out = []
    for r in reads:
        out.append([None if all(v != v for v in site) else list(site) for site in r])
    return out


def job_llk(job):
    from mchap.assemble.likelihood import log_likelihood
    from mchap.calling.likelihood import log_likelihood_alleles

    _, A, P, maxR, ch, nchunks, _ = job
    r = Result()
    payload = {"kind": "job", "job": job}
    letters = read_alphabet(A)
    # haplotypes over *all* tensor slots: alleles >= n_alleles[j] are zero-probability non-alleles
    haps = list(itertools.product(*[range(MAXA) for a in A])) if len(A) <= 2 else list(itertools.product(*[range(a) for a in A]))
    hap_arr = np.array(haps, np.int8)
    gens = ref.multisets(range(len(haps)), P)
    garrs = [np.array([haps[i] for i in g], np.int8).reshape(P, len(A)) for g in gens]
    gidx = [np.array(g) for g in gens]
    tag = "A=%s|P=%d" % ("x".join(map(str, A)), P)
    # a count of 0 is a read observed zero times: it must contribute nothing (padded read tables carry such rows)
    count_variants = {1: [(1,), (3,)], 2: [(1, 1), (2, 3), (0, 2), (3, 0)], 3: [(1, 1, 1), (2, 1, 3), (2, 0, 1), (0, 3, 1)]}
    for k in range(1, maxR + 1):
        for combo in itertools.combinations_with_replacement(range(len(letters)), k):
            if combo[0] % nchunks != ch:
                continue
            reads = [letters[i][1] for i in combo]
            R = np.array(reads, float)
            rref = to_ref(reads)
            for counts in count_variants[k]:
                C = np.array(counts)
                # (read, count k) == k copies
                Rexp = np.array([reads[i] for i in range(k) for _ in range(counts[i])], float)
                for gi, g in enumerate(gens):
                    if 0 in counts:
                        live = [i for i in range(k) if counts[i] > 0]
                        want = ref.llk([rref[i] for i in live], [counts[i] for i in live], [haps[i] for i in g])
                        if want == -math.inf or ref.llk(rref, [1] * k, [haps[i] for i in g]) == -math.inf:
                            continue  # 0 x log(0) is outside the alphabet
                    else:
                        want = ref.llk(rref, counts, [haps[i] for i in g])
                    got = float(log_likelihood(R, garrs[gi], C))
                    r.evaluations += 1
                    if P >= 2 or k >= 2:
                        r.nontrivial += 1
                    ok = close(got, want)
                    if not ok:
                        r.violation("llk|%s|reads=%s|counts=%s|g=%s" % (tag, [letters[i][0] for i in combo], counts, g),
                                    "log_likelihood %.15g != reference mixture formula %.15g" % (got, want), payload)
                        continue
                    got2 = float(log_likelihood(Rexp, garrs[gi], None))
                    got3 = float(log_likelihood_alleles(R, C, hap_arr, gidx[gi]))
                    if not close(got2, want):
                        r.violation("llk-count|%s|reads=%s|counts=%s|g=%s" % (tag, [letters[i][0] for i in combo], counts, g),
                                    "read with count k differs from k identical reads: %.15g vs %.15g" % (got, got2), payload)
                    if not close(got3, want):
                        r.violation("llk-alleles|%s|reads=%s|counts=%s|g=%s" % (tag, [letters[i][0] for i in combo], counts, g),
                                    "calling.log_likelihood_alleles %.15g != %.15g" % (got3, want), payload)
                    if counts == count_variants[k][0] and k <= 2:
                        r.outcome(round(got, 9) if got > -1e300 else "-inf")
            if len(r.samples) < 1 and k == 2:
                r.sample({"n_alleles": A, "ploidy": P, "reads": [letters[i][0] for i in combo], "counts": counts, "genotype": [haps[i] for i in gens[-1]], "llk": got})
    return r


def job_sym(job):
    """order of haplotypes / of reads; py_func == jitted; cached wrappers"""
    from mchap.assemble.likelihood import (log_likelihood, log_likelihood_cached, new_log_likelihood_cache)
    from mchap.calling.likelihood import log_likelihood_alleles_cached
    from mchap.pedigree.likelihood import log_likelihood_alleles_cached as ped_cached
    import numba

    _, A, P, _ = job
    r = Result()
    payload = {"kind": "job", "job": job}
    letters = read_alphabet(A)
    haps = list(itertools.product(*[range(a) for a in A]))
    hap_arr = np.array(haps, np.int8)
    gens = ref.multisets(range(len(haps)), P)
    tag = "A=%s|P=%d" % ("x".join(map(str, A)), P)
    # a fixed family of 3-read sets (every letter appears), all read orders x all haplotype orders
    L = len(letters)
    for i in range(L):
        trio = [letters[i][1], letters[(i * 5 + 1) % L][1], letters[(i * 3 + 2) % L][1]]
        counts = [1 + (i % 3), 2, 1]
        rref = to_ref(trio)
        cache = new_log_likelihood_cache(P, len(A), MAXA)
        ccache = numba.typed.Dict.empty(numba.types.int64, numba.types.float64)
        pcache = numba.typed.Dict.empty(numba.types.UniTuple(numba.types.int64, 2), numba.types.float64)
        for g in gens:
            want = ref.llk(rref, counts, [haps[k] for k in g])
            for ro in itertools.permutations(range(3)):
                R = np.array([trio[k] for k in ro], float)
                C = np.array([counts[k] for k in ro])
                for go in sorted(set(itertools.permutations(g))):
                    ga = np.array([haps[k] for k in go], np.int8).reshape(P, len(A))
                    got = float(log_likelihood(R, ga, C))
                    r.evaluations += 1
                    r.nontrivial += 1
                    if not close(got, want):
                        r.violation("llk-order|%s|letter=%d|g=%s|read_order=%s" % (tag, i, go, ro),
                                    "likelihood depends on haplotype/read order: %.15g vs %.15g" % (got, want), payload)
                    if ro == (0, 1, 2):
                        py = float(log_likelihood.py_func(R, ga, C))
                        v1, cache = log_likelihood_cached(R, ga, C, cache)  # miss then hits
                        v2, _ = log_likelihood_cached(R, ga, C, None)
                        v3 = log_likelihood_alleles_cached(R, C, hap_arr, np.array(go), ccache)
                        # pedigree: rows with zero count (trailing padding, but also leading / interleaved) must be ignored
                        Rp = np.concatenate([np.full((1,) + R.shape[1:], 0.25), R[:1], np.full((1,) + R.shape[1:], 0.5), R[1:], np.full((2,) + R.shape[1:], 0.5)])
                        Cp = np.concatenate([[0], C[:1], [0], C[1:], [0, 0]])
                        v4 = ped_cached(Rp, Cp, hap_arr, 1, np.array(sorted(go)), pcache)
                        v5 = ped_cached(Rp, Cp, hap_arr, 1, np.array(sorted(go)), None)
                        v6 = ped_cached(Rp, Cp, hap_arr, 1, np.array(sorted(go)), pcache)  # hit
                        for nm, v in (("py_func", py), ("cached", v1), ("cached-none", v2), ("call-cached", v3), ("ped-cached", v4), ("ped-nocache", v5), ("ped-cache-hit", v6)):
                            r.evaluations += 1
                            if not close(float(v), want):
                                r.violation("llk-variant|%s|%s|letter=%d|g=%s" % (tag, nm, i, go),
                                            "%s returns %.15g, reference %.15g" % (nm, float(v), want), payload)
            r.outcome(round(want, 9) if want > -1e300 else "-inf")
    r.sample({"symmetry": True, "n_alleles": A, "ploidy": P, "read_trios": L, "genotypes": len(gens)}, cap=1)
    return r


def job_struct(job):
    from mchap.assemble.likelihood import (log_likelihood, log_likelihood_structural_change,
                                           log_likelihood_structural_change_cached, new_log_likelihood_cache)
    from mchap.jitutils import structural_change

    _, A, P, seed, _ = job
    r = Result()
    payload = {"kind": "job", "job": job}
    letters = read_alphabet(A)
    L = len(letters)
    n = len(A)
    haps = list(itertools.product(*[range(a) for a in A]))
    tag = "A=%s|P=%d" % ("x".join(map(str, A)), P)
    intervals = [None] + [(a, b) for a in range(n) for b in range(a, n + 1)]  # incl. empty intervals
    read_sets = []
    for i in range(0, L, max(1, L // 6)):
        read_sets.append(([letters[i][1], letters[(i * 7 + 3 + seed) % L][1], letters[(i * 2 + 5) % L][1]], [2, 1, 3]))
    # error-free calls (probability exactly 1 / 0 on *listed* alleles): a haplotype the read rules out has likelihood exactly zero, which is not a gap
    def certain(hap, gap_at=None):
        return [[float("nan")] * MAXA if j == gap_at else [1.0 if k == hap[j] else 0.0 for k in range(MAXA)] for j in range(n)]

    read_sets.append(([certain(haps[0]), certain(haps[-1], gap_at=n - 1), letters[1 % L][1]], [2, 1, 3]))
    read_sets.append(([certain(haps[len(haps) // 2]), letters[(3 + seed) % L][1], letters[2 % L][1]], [1, 2, 1]))
    cache = new_log_likelihood_cache(P, n, MAXA)
    for reads, counts in read_sets:
        R = np.array(reads, float)
        C = np.array(counts)
        rref = to_ref(reads)
        for g in itertools.product(range(len(haps)), repeat=P):
            if P >= 3 and list(g) != sorted(g):
                continue
            ga = np.array([haps[k] for k in g], np.int8).reshape(P, n)
            for idx in itertools.product(range(P), repeat=P):
                ia = np.array(idx)
                for iv in intervals:
                    iva = None if iv is None else np.array(iv)
                    g2 = ga.copy()
                    structural_change(g2, ia, iva)
                    # independent rearrangement
                    lo, hi = (0, n) if iv is None else iv
                    want_g = [[ga[idx[h], j] if lo <= j < hi else ga[h, j] for j in range(n)] for h in range(P)]
                    r.evaluations += 1
                    r.nontrivial += 1
                    if g2.tolist() != want_g:
                        r.violation("struct-change|%s|g=%s|idx=%s|iv=%s" % (tag, g, idx, iv), "structural_change gives %r, expected %r" % (g2.tolist(), want_g), payload)
                        continue
                    want = ref.llk(rref, counts, [tuple(x) for x in want_g])
                    got = float(log_likelihood_structural_change(R, ga, ia, iva, C))
                    with np.errstate(divide="ignore", invalid="ignore"):  # log(0) of an excluded genotype is the expected -inf, not worth a warning line
                        got_py = float(log_likelihood_structural_change.py_func(R, ga, ia, iva, C)) if P <= 2 else got
                    direct = float(log_likelihood(R, g2, C))
                    v, cache = log_likelihood_structural_change_cached(R, ga, ia, iva, C, cache)
                    for nm, x in (("jit", got), ("py_func", got_py), ("direct", direct), ("cached", float(v))):
                        if not close(x, want):
                            r.violation("struct-llk|%s|%s|g=%s|idx=%s|iv=%s" % (tag, nm, g, idx, iv),
                                        "llk of the proposed rearrangement (%s) %.15g != llk of the rearranged genotype %.15g" % (nm, x, want), payload)
                    if not np.array_equal(ga, np.array([haps[k] for k in g], np.int8).reshape(P, n)):
                        r.violation("struct-inplace|%s|g=%s" % (tag, g), "evaluation modified the genotype in place", payload)
        # the cache is shared across read sets on purpose? no: values depend on reads -> new cache per read set
        cache = new_log_likelihood_cache(P, n, MAXA)
    r.sample({"structural": True, "n_alleles": A, "ploidy": P, "index_vectors": P ** P, "intervals": len(intervals)}, cap=1)
    return r
