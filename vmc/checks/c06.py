"""C06  Read extraction: the matrix fed to inference is exactly the filtered pileup.

All BAMs that can be assembled from <= R letters of a curated read alphabet (CIGAR shapes, bases,
flags, MAPQ, read groups / samples, mate structures, positions) x all 96 filter configurations,
against an independent CIGAR-walking pileup, directly on extract_read_variants and through
program.encode_sample_reads (DP / RCOUNT / RCALLS / SNVDP / read distributions)."""
import itertools
import os

import numpy as np

from ..result import Result
from .. import env, synth
from ..synth import REF

META = {
    "level": "exploration",
    "rule": "BAM = set of <= R letters from the read alphabet (each letter = 1 alignment or a mate pair); every BAM x every filter configuration "
    "(min MAPQ {0,20} x keep-dup x keep-qcfail x keep-supp x id {SM,ID} x sample selection {first, second, all}) is one case; "
    "non-trivial = at least one read passes the filters for a selected sample",
    "bound": {"quick": "all BAMs of <= 2 letters from a 44-letter alphabet x 96 configurations; encode_sample_reads on all 16 flag combinations x {SM,ID}",
              "thorough": "all BAMs of <= 3 letters"},
    "assumptions": ["SNVDP counts aligned bases (incl. N / non-listed bases), RCALLS counts listed alleles only, DP = round(mean SNVDP)",
                    "out of alphabet: reads without RG or with an RG missing from the header (KeyError, undefined by the property), CRAM"],
    "trusted_base": ["vmc/synth.walk (CIGAR walker)", "pysam BAM writer / fetch"],
}

CONTIG = "chr1"
R = REF[CONTIG]
START, STOP = 8, 30
SNV_POS = [12, 17, 22]
SNV_ALLELES = [(R[12], "C"), (R[17], "G", "T"), (R[22], "A")]
assert R[12] == "T" and R[17] == "A" and R[22] == "T", (R[12], R[17], R[22])
RGS = [("rgA", "S1"), ("rgB", "S1"), ("rgC", "S2")]
THR = 20
ERR = 0.0024


def build_seq(pos, cigar, mut):
    seq = []
    r = pos
    for o, n in cigar:
        if o == "M":
            seq += list(R[r:r + n])
            r += n
        elif o in "IS":
            seq += ["G"] * n
        elif o in "DN":
            r += n
    q = 0
    r = pos
    for o, n in cigar:
        if o == "M":
            for i in range(n):
                if r + i in mut:
                    seq[q + i] = mut[r + i]
            q += n
            r += n
        elif o in "IS":
            q += n
        elif o in "DN":
            r += n
    return "".join(seq)


def rd(name, pos, cigar, mut=None, flag=0, mapq=60, rg="rgA"):
    # base quality differs between reads (and between the mates of a pair): 17, 23, 30 or 37 depending on name and start
    qual = (17, 23, 30, 37)[(sum(ord(c) for c in name) + pos) % 4]
    return dict(name=name, contig=CONTIG, pos=pos, cigar=cigar, seq=build_seq(pos, cigar, mut or {}), flag=flag, mapq=mapq, rg=rg, qual=qual)


def alphabet():
    """list of (label, [alignment dicts]); qnames are unique per letter unless sharing is the point"""
    M20 = [("M", 20)]
    ALT = {12: "C", 17: "T", 22: "A"}
    L = []

    def add(label, *reads):
        L.append((label, list(reads)))

    add("ref", rd("q0", 8, M20))
    add("alt", rd("q1", 8, M20, ALT))
    add("alt1", rd("q2", 8, M20, {12: "C"}))
    add("alt2G", rd("q3", 9, M20, {17: "G"}))
    add("nonlisted", rd("q4", 8, M20, {12: "G", 22: "C"}))
    add("Nbase", rd("q5", 8, M20, {17: "N"}))
    add("ins", rd("q6", 8, [("M", 6), ("I", 2), ("M", 12)], ALT))
    add("del-over-snv2", rd("q7", 8, [("M", 8), ("D", 3), ("M", 9)], ALT))
    add("clip-over-snv1", rd("q8", 14, [("S", 6), ("M", 14)], ALT))
    add("skip-over-snv2", rd("q9", 8, [("M", 6), ("N", 8), ("M", 6)], ALT))
    add("hardclip", rd("q10", 8, [("H", 3), ("M", 20)], {17: "G"}))
    add("endclip", rd("q11", 8, [("M", 12), ("S", 8)], ALT))
    add("ins-adjacent", rd("q12", 8, [("M", 9), ("I", 1), ("M", 10)], ALT))
    add("del-adjacent", rd("q13", 8, [("M", 9), ("D", 1), ("M", 10)], ALT))
    add("dup", rd("q14", 8, M20, ALT, flag=0x400))
    add("qcfail", rd("q15", 8, M20, {12: "C"}, flag=0x200))
    add("supp", rd("q16", 8, M20, {22: "A"}, flag=0x800))
    add("unmapped", rd("q17", 8, M20, ALT, flag=0x4))
    add("reverse", rd("q18", 8, M20, {17: "T"}, flag=0x10))
    add("secondary", rd("q19", 8, M20, {17: "G"}, flag=0x100))
    add("dup+qcfail", rd("q20", 8, M20, ALT, flag=0x600))
    add("mapq0", rd("q21", 8, M20, ALT, mapq=0))
    add("mapq19", rd("q22", 8, M20, {12: "C"}, mapq=THR - 1))
    add("mapq20", rd("q23", 8, M20, {22: "A"}, mapq=THR))
    add("rgB", rd("q24", 8, M20, {17: "G"}, rg="rgB"))
    add("rgC", rd("q25", 8, M20, ALT, rg="rgC"))
    add("rgC-dup", rd("q26", 8, M20, {12: "C"}, rg="rgC", flag=0x400))
    add("rgC-mapq19", rd("q27", 8, M20, {12: "C"}, rg="rgC", mapq=19))
    add("no-snv-overlap", rd("q28", 24, [("M", 5)]))
    add("outside", rd("q29", 32, [("M", 8)]))
    add("before", rd("q30", 0, [("M", 8)]))
    add("edge-overlap", rd("q31", 2, [("M", 8)]))
    add("mates-agree", rd("p0", 8, [("M", 10)], {12: "C", 17: "G"}, flag=0x41), rd("p0", 15, [("M", 12)], {17: "G", 22: "A"}, flag=0x81))
    add("mates-disagree", rd("p1", 8, [("M", 10)], {17: "G"}, flag=0x41), rd("p1", 15, [("M", 12)], {17: "T"}, flag=0x81))
    add("mates-apart", rd("p2", 8, [("M", 7)], {12: "C"}, flag=0x41), rd("p2", 20, [("M", 8)], {22: "A"}, flag=0x81))
    add("mates-two-rg", rd("p3", 8, [("M", 10)], {12: "C"}, flag=0x41, rg="rgA"), rd("p3", 15, [("M", 12)], {22: "A"}, flag=0x81, rg="rgB"))
    add("mates-one-dup", rd("p4", 8, [("M", 10)], {17: "G"}, flag=0x41), rd("p4", 15, [("M", 12)], {17: "T", 22: "A"}, flag=0x81 | 0x400))
    add("mates-one-lowq", rd("p5", 8, [("M", 10)], {17: "G"}, flag=0x41), rd("p5", 15, [("M", 12)], {17: "T"}, flag=0x81, mapq=5))
    add("mates-two-samples", rd("p6", 8, [("M", 10)], {17: "G"}, flag=0x41, rg="rgA"), rd("p6", 15, [("M", 12)], {17: "T"}, flag=0x81, rg="rgC"))
    add("shared-name-S1", rd("shared", 8, M20, {12: "C"}, rg="rgA"))
    add("shared-name-S2", rd("shared", 8, M20, {22: "A"}, rg="rgC"))
    add("shared-name-S1b", rd("shared", 10, [("M", 15)], {17: "T"}, rg="rgB"))
    add("mates-N-then-agree", rd("p7", 8, [("M", 12)], {17: "N"}, flag=0x41), rd("p7", 12, [("M", 14)], {17: "G"}, flag=0x81))
    add("triple-supp", rd("p8", 8, [("M", 12)], {17: "G"}, flag=0x41), rd("p8", 12, [("M", 14)], {17: "G"}, flag=0x81), rd("p8", 14, [("M", 10)], {17: "T"}, flag=0x881))
    return L


def locus():
    from mchap.io import Locus, SNP

    return Locus(CONTIG, START, STOP, "L", R[START:STOP], tuple(SNP(CONTIG, p, p + 1, ".", a) for p, a in zip(SNV_POS, SNV_ALLELES)))


def configs():
    out = []
    for mq in (0, THR):
        for sd in (True, False):
            for sq in (True, False):
                for ss in (True, False):
                    for idf in ("SM", "ID"):
                        for sel in (0, 1, 2):
                            out.append((mq, sd, sq, ss, idf, sel))
    return out


def passes(a, mq, sd, sq, ss):
    f = a["flag"]
    if f & 0x4:
        return False
    if a["mapq"] < mq:
        return False
    if (f & 0x400) and sd:
        return False
    if (f & 0x200) and sq:
        return False
    if (f & 0x800) and ss:
        return False
    s, e = synth.ref_span(a)
    return s < STOP and e > START


def expected(aligns, mq, sd, sq, ss, idf):
    """reference: {sample_key: {qname: chars}} in file order (coordinate sorted, stable)"""
    key_of = {rg: (sm if idf == "SM" else rg) for rg, sm in RGS}
    out = {k: {} for k in key_of.values()}
    order = sorted(range(len(aligns)), key=lambda i: aligns[i]["pos"])
    for i in order:
        a = aligns[i]
        if not passes(a, mq, sd, sq, ss):
            continue
        k = key_of[a["rg"]]
        row = out[k].setdefault(a["name"], ["-"] * len(SNV_POS))
        w = synth.walk(a, SNV_POS)
        for j, p in enumerate(SNV_POS):
            b = w[p]
            if b == "-":
                continue
            if row[j] == "-":
                row[j] = b
            elif row[j] != b:
                row[j] = "N"
    return {k: {q: "".join(v) for q, v in d.items()} for k, d in out.items()}


def expected_quals(aligns, mq, sd, sq, ss, idf):
    """{sample_key: {qname: [summed base quality of the agreeing observations per SNV]}} (0 where nothing was observed)"""
    key_of = {rg: (sm if idf == "SM" else rg) for rg, sm in RGS}
    out = {k: {} for k in key_of.values()}
    for i in sorted(range(len(aligns)), key=lambda i: aligns[i]["pos"]):
        a = aligns[i]
        if not passes(a, mq, sd, sq, ss):
            continue
        row = out[key_of[a["rg"]]].setdefault(a["name"], [0] * len(SNV_POS))
        w = synth.walk(a, SNV_POS)
        for j, p_ in enumerate(SNV_POS):
            if w[p_] != "-":
                row[j] += a["qual"]
    return out


def warm(tier):
    env.quiet()
    import mchap.application.baseclass  # noqa
    from mchap import mset  # noqa

    env.quiet()


def plan(tier, seed):
    n = len(alphabet())
    maxr = 2 if tier == "quick" else 3
    combos = [c for k in range(1, maxr + 1) for c in itertools.combinations(range(n), k)]
    nchunk = 64 if tier == "quick" else 256
    jobs = [("bams", maxr, ch, nchunk, len(combos) // nchunk) for ch in range(nchunk)]
    jobs.append(("refcheck", seed, 100))
    for ch in range(8):
        jobs.append(("windows", ch, 8, 400))
    jobs.append(("optwire", seed, 300))
    jobs.append(("pools", seed, 200))
    return jobs


def run_job(job):
    env.quiet()
    return {"bams": job_bams, "refcheck": job_refcheck, "windows": job_windows, "optwire": job_optwire, "pools": job_pools}[job[0]](job)


def job_pools(job):
    """--sample-pool: every assignment of 4 samples to <= 3 pools, the file's lines in every order (members of a pool need not be adjacent), a sample in
    two pools, one pool of everything, no pooling: each pool is fed by exactly the (sample, alignment file) pairs of its members, in file order"""
    from mchap.application.arguments import parse_sample_pools

    r = Result()
    payload = {"kind": "job", "job": job}
    d = env.scratch_dir("c06p")
    samples = ["S1", "S2", "S3", "S4"]
    bams = {s: "/data/%s.bam" % s for s in samples}
    # no pooling / one pool of all samples
    got = parse_sample_pools(list(samples), dict(bams), None)
    r.evaluations += 1
    if got != (samples, {s: [(s, bams[s])] for s in samples}):
        r.violation("pools|none", "without --sample-pool every sample must be its own pool: %r" % (got,), payload)
    got = parse_sample_pools(list(samples), dict(bams), "EVERYTHING")
    r.evaluations += 1
    if got != (["EVERYTHING"], {"EVERYTHING": [(s, bams[s]) for s in samples]}):
        r.violation("pools|all", "a pool name that is not a file must pool all samples in order: %r" % (got,), payload)
    path = os.path.join(str(d), "pools.txt")
    cases = []
    for labels in itertools.product("ABC", repeat=4):
        for perm in itertools.permutations(range(4)):
            cases.append([(samples[i], "P" + labels[i]) for i in perm])
    # a sample that belongs to two pools (extra line in every position)
    for labels in (("A", "B", "A", "B"), ("A", "A", "B", "C")):
        base = [(samples[i], "P" + labels[i]) for i in range(4)]
        for pos in range(5):
            for extra in (("S1", "PB"), ("S3", "PC")):
                if extra not in base:
                    cases.append(base[:pos] + [extra] + base[pos:])
    for lines in cases:
        with open(path, "w") as f:
            for s_, p_ in lines:
                f.write("%s\t%s\n" % (s_, p_))
        pools_want = []
        members = {}
        for s_, p_ in lines:
            if p_ not in members:
                pools_want.append(p_)
                members[p_] = []
            members[p_].append((s_, bams[s_]))
        r.evaluations += 1
        r.nontrivial += 1
        try:
            pools, pool_bams = parse_sample_pools(list(samples), dict(bams), path)
        except Exception as e:  # noqa
            r.violation("pools|exception|%s" % type(e).__name__, "%s: %s for the pool file %r" % (type(e).__name__, e, lines), payload)
            continue
        if list(pools) != pools_want or {k: list(v) for k, v in pool_bams.items()} != members:
            r.violation("pools|members", "pool file %r gives pools %r with members %r, expected %r with %r" % (lines, list(pools), dict(pool_bams), pools_want, members), payload)
        r.outcome((tuple(pools_want), tuple(len(members[p_]) for p_ in pools_want)))
    r.sample({"pool_files": len(cases), "samples": samples}, cap=1)
    return r


def job_optwire(job):
    """the MAPQ threshold and the duplicate / QC-fail / supplementary flags typed on the command line reach the program
    object of every program (the `bams` job then decides what those attributes do)"""
    from .. import optwire, stddata
    from mchap.application import arguments as A

    r = Result()
    payload = {"kind": "job", "job": job}
    D = stddata.Data(env.scratch_dir("c06o"))
    hv = D.save_vcf(stddata.run(D.assemble_args(bed=D.bed_subset(["L1"], "w.bed"))), "o.vcf")
    env.quiet()
    mods = stddata.modules()
    for prog, arglist, argv in (("assemble", A.ASSEMBLE_MCMC_PARSER_ARGUMENTS, D.assemble_args()), ("call", A.CALL_MCMC_PARSER_ARGUMENTS, D.call_args("call", hv)),
                                ("call-exact", A.CALL_EXACT_PARSER_ARGUMENTS, D.call_args("call-exact", hv)),
                                ("call-pedigree", A.CALL_PEDIGREE_MCMC_PARSER_ARGUMENTS, D.call_args("call-pedigree", hv, extra=D.pedigree_files()))):
        optwire.check(r, payload, mods[prog].program, argv, arglist, prog, only=("--mapping-quality",))
        optwire.check_flags(r, payload, mods[prog].program, argv, arglist, prog)
        for q in (0, 1, 20, 60):
            obj = mods[prog].program.cli(argv + ["--mapping-quality", str(q)])
            r.evaluations += 1
            if int(obj.mapping_quality) != q:
                r.violation("option-mapq|%s" % prog, "--mapping-quality %d gives a program with mapping_quality %r" % (q, obj.mapping_quality), payload)
    r.sample({"options": ["--mapping-quality", "boolean read filters"], "programs": 4})
    return r


def job_bams(job):
    import pysam
    from mchap.io import extract_read_variants
    from mchap.application import baseclass
    import mchap.io.vcf.formatfields as FORMAT
    import mchap.io.vcf.infofields as INFO

    env.quiet()
    _, maxr, ch, nchunk, _ = job
    r = Result()
    payload = {"kind": "job", "job": job}
    L = alphabet()
    loc = locus()
    d = env.scratch_dir("c06")
    combos = [c for k in range(1, maxr + 1) for c in itertools.combinations(range(len(L)), k)]
    cfgs = configs()
    fa = synth.write_ref(str(d))
    n_alleles = [len(a) for a in SNV_ALLELES]
    for ci, combo in enumerate(combos):
        if ci % nchunk != ch:
            continue
        aligns = [a for i in combo for a in L[i][1]]
        labels = [L[i][0] for i in combo]
        path = os.path.join(str(d), "b%d.bam" % ci)
        synth.write_bam(path, RGS, aligns)
        with pysam.AlignmentFile(path) as f:
            for (mq, sd, sq, ss, idf, sel) in cfgs:
                keys = ["S1", "S2"] if idf == "SM" else ["rgA", "rgB", "rgC"]
                samples = None if sel == 2 else keys[0 if sel == 0 else -1]
                want_all = expected(aligns, mq, sd, sq, ss, idf)
                want = want_all if samples is None else {samples: want_all[samples]}
                r.evaluations += 1
                if any(want.values()):
                    r.nontrivial += 1
                tag = "letters=%s|mq=%d|skipdup=%s|skipqc=%s|skipsupp=%s|id=%s|samples=%s" % (labels, mq, sd, sq, ss, idf, samples)
                try:
                    got = extract_read_variants(loc, f, samples=samples, id=idf, min_quality=mq, skip_duplicates=sd, skip_qcfail=sq,
                                                skip_supplementary=ss, read_dicts=True)
                    gotq = {k: {q: [int(x) for x in v[1]] for q, v in dd.items()} for k, dd in got.items()}
                    got = {k: {q: "".join(v[0]) for q, v in dd.items()} for k, dd in got.items()}
                    mat = extract_read_variants(loc, f, samples=samples, id=idf, min_quality=mq, skip_duplicates=sd, skip_qcfail=sq,
                                                skip_supplementary=ss)
                    mat = {k: ["".join(row) for row in v[0]] for k, v in mat.items()}
                except Exception as e:  # noqa
                    r.violation("extract-exception|%s|letters=%s" % (type(e).__name__, labels), "%s: %s (%s)" % (type(e).__name__, e, tag), payload)
                    continue
                if got != want:
                    r.violation("extract|letters=%s|id=%s" % (labels, idf), "read dict %r, filtered pileup %r (%s)" % (got, want, tag), payload)
                    continue
                # base qualities: a called cell carries the summed quality of the (agreeing) observations behind it
                wq = expected_quals(aligns, mq, sd, sq, ss, idf)
                for k, dd in got.items():
                    for q, chars in dd.items():
                        bad = [j for j, c in enumerate(chars) if c not in "-N" and gotq[k][q][j] != wq[k][q][j]]
                        if bad:
                            r.violation("extract-quals|letters=%s|id=%s" % (labels, idf), "read %s of %s: base qualities %r, observations behind the calls %s sum to %r (%s)" % (
                                q, k, gotq[k][q], chars, wq[k][q], tag), payload)
                wantm = {k: list(v.values()) for k, v in want.items()}
                if {k: sorted(v) for k, v in mat.items()} != {k: sorted(v) for k, v in wantm.items()}:
                    r.violation("extract-matrix|letters=%s|id=%s" % (labels, idf), "matrix rows %r, filtered pileup %r (%s)" % (mat, wantm, tag), payload)
                r.outcome((labels, str(sorted(want.items()))))
        # through the application: all 16 flag combinations x id field, every sample (incl. a pool of both)
        for idf in ("SM", "ID"):
            keys = ["S1", "S2"] if idf == "SM" else ["rgA", "rgB", "rgC"]
            sample_bams = {k: [(k, path)] for k in keys}
            sample_bams["POOL"] = [(keys[0], path), (keys[-1], path)]
            names = list(sample_bams)
            for mq in (0, THR):
                for sd in (True, False):
                    for sq in (True, False):
                        for ss in (True, False):
                            # base qualities enter the encoding only on request (two of the sixteen flag combinations are run that way)
                            phred = (sd == sq == ss) and mq == THR
                            prog = baseclass.program(vcf="", ref=fa, samples=names, sample_bams=sample_bams, sample_ploidy={k: 2 for k in names},
                                                     sample_inbreeding={k: 0.0 for k in names}, read_group_field=idf, base_error_rate=ERR,
                                                     mapping_quality=mq, skip_duplicates=sd, skip_qcfail=sq, skip_supplementary=ss,
                                                     ignore_base_phred_scores=not phred,
                                                     info_fields=INFO.DEFAULT_FIELDS, format_fields=FORMAT.DEFAULT_FIELDS)
                            data = prog._locus_data(loc, sample_bams)
                            tag = "letters=%s|mq=%d|skipdup=%s|skipqc=%s|skipsupp=%s|id=%s" % (labels, mq, sd, sq, ss, idf)
                            try:
                                with env.app_warnings():
                                    prog.encode_sample_reads(data)
                            except Exception as e:  # noqa
                                e = synth.root_cause(e)
                                r.violation("encode-exception|%s|letters=%s" % (type(e).__name__, labels), "%s: %s (%s)" % (type(e).__name__, e, tag), payload)
                                continue
                            env.quiet()
                            want_all = expected(aligns, mq, sd, sq, ss, idf)
                            wq_all = expected_quals(aligns, mq, sd, sq, ss, idf)
                            r.evaluations += 1
                            for s in names:
                                if s == "POOL":
                                    rows = list(want_all[keys[0]].values()) + list(want_all[keys[-1]].values())
                                    qrows = list(wq_all[keys[0]].values()) + list(wq_all[keys[-1]].values())
                                else:
                                    rows = list(want_all[s].values())
                                    qrows = list(wq_all[s].values())
                                if rows and s == names[0]:
                                    r.nontrivial += 1
                                rcount = len(rows)
                                snvdp = [sum(1 for row in rows if row[j] != "-") for j in range(len(SNV_POS))]
                                calls = [[SNV_ALLELES[j].index(row[j]) if row[j] in SNV_ALLELES[j] else -1 for j in range(len(SNV_POS))] for row in rows]
                                rcalls = sum(1 for c in calls for x in c if x >= 0)
                                dp = float(np.round(np.mean(snvdp)))
                                def _i(x):  # what the program stored, NaN kept visible instead of crashing the comparison
                                    x = float(x)
                                    return None if x != x else int(x)

                                dpv = float(data.sampledata[FORMAT.DP][s])
                                gotv = (_i(data.sampledata[FORMAT.RCOUNT][s]), [_i(x) for x in np.atleast_1d(data.sampledata[FORMAT.SNVDP][s])],
                                        _i(data.sampledata[FORMAT.RCALLS][s]), None if dpv != dpv else dpv)
                                if gotv != (rcount, snvdp, rcalls, dp):
                                    r.violation("encode-counts|letters=%s|id=%s|sample=%s" % (labels, idf, s),
                                                "(RCOUNT, SNVDP, RCALLS, DP) = %r, filtered pileup gives %r (%s)" % (gotv, (rcount, snvdp, rcalls, dp), tag), payload)
                                # de-duplicated probabilistic encoding
                                exp = {}
                                for c, qrow in zip(calls, qrows):
                                    rowp = []
                                    for j, x in enumerate(c):
                                        if x < 0:
                                            # no call: NaN on the listed alleles (slots beyond n_alleles are structurally zero)
                                            rowp.append(tuple(-1.0 if k < n_alleles[j] else 0.0 for k in range(3)))  # -1.0 stands for NaN
                                        else:
                                            # P(call is right) = (1 - error rate) x (1 - 10^(-Q/10)) with Q the summed quality of the agreeing mates
                                            pc = (1 - ERR) * ((1 - 10 ** (-qrow[j] / 10)) if phred else 1.0)
                                            v = [(1 - pc) / 3 if k < n_alleles[j] else 0.0 for k in range(3)]
                                            v[x] = pc
                                            rowp.append(tuple(round(t, 12) for t in v))
                                    exp[tuple(rowp)] = exp.get(tuple(rowp), 0) + 1
                                gd, gc = data.read_dists[s], data.read_counts[s]
                                got = {}
                                for row, cnt in zip(gd, gc):
                                    k = tuple(tuple(-1.0 if x != x else round(float(x), 12) for x in site) for site in row)
                                    got[k] = got.get(k, 0) + int(cnt)
                                if len(got) != len(gc):
                                    r.violation("encode-dedup|letters=%s|id=%s|sample=%s" % (labels, idf, s), "identical reads were not merged by the de-duplication (%s)" % tag, payload)
                                if sorted(got.items()) != sorted(exp.items()):
                                    r.violation("encode-dists|letters=%s|id=%s|sample=%s" % (labels, idf, s),
                                                "de-duplicated read distributions differ from the encoding of the filtered pileup (%s)" % tag, payload)
                                if not np.array_equal(np.asarray(data.read_calls[s]).reshape(-1, len(SNV_POS)), np.array(calls, int).reshape(-1, len(SNV_POS))):
                                    r.violation("encode-calls|letters=%s|id=%s|sample=%s" % (labels, idf, s), "read_calls %r != %r (%s)" % (np.asarray(data.read_calls[s]).tolist(), calls, tag), payload)
        os.remove(path)
        os.remove(path + ".bai")
        if len(r.samples) < 1 and len(combo) == 2:
            r.sample({"letters": labels, "alignments": [[a["name"], a["pos"], a["cigar"], a["flag"], a["mapq"], a["rg"]] for a in aligns],
                      "expected_default": expected(aligns, THR, True, True, True, "SM")})
    return r


def job_refcheck(job):
    """a reference base that disagrees between SNV file, FASTA and alignment is an error, never used"""
    import pysam
    from mchap.io import Locus, SNP, extract_read_variants
    from mchap.application import baseclass
    import mchap.io.vcf.formatfields as FORMAT
    import mchap.io.vcf.infofields as INFO

    env.quiet()
    r = Result()
    payload = {"kind": "job", "job": job}
    d = env.scratch_dir("c06r")
    fa = synth.write_ref(str(d))
    loc_ok = locus()
    # (a) SNV file vs FASTA, for every SNV and every wrong base (incl. one that is a listed ALT of the true variant)
    for j, p in enumerate(SNV_POS):
        for wrong in "ACGT":
            if wrong == R[p]:
                continue
            snvs = [(CONTIG, q, (wrong if q == p else R[q]), tuple(b for b in "ACGT" if b not in (wrong, R[q]))[:1] if q == p else SNV_ALLELES[k][1:])
                    for k, q in enumerate(SNV_POS)]
            vcf = synth.write_snvs(str(d), snvs, name="bad_%d_%s.vcf" % (p, wrong))
            # the offending SNV in the interior of the target, on its first base, on its last base, and as its only base
            for (w0, w1, where) in ((START, STOP, "interior"), (p, p + 6, "first-base"), (p - 5, p + 1, "last-base"), (p, p + 1, "only-base")):
                base = Locus(CONTIG, w0, w1, "L", None, None)
                for order in ("seq-first", "variants-first"):
                    r.evaluations += 1
                    r.nontrivial += 1
                    try:
                        if order == "seq-first":
                            base.set_sequence(fa).set_variants(vcf)
                        else:
                            base.set_variants(vcf).set_sequence(fa)
                        r.violation("ref-snv-vs-fasta|%s|%s" % (where, order), "SNV file REF %s at %d (target [%d, %d)) disagrees with the FASTA base %s but no error was raised" % (
                            wrong, p + 1, w0, w1, R[p]), payload)
                    except ValueError:
                        r.outcome(("raised", p, wrong, order, where))
    # (b) alignment reference (MD) vs SNV file: the alignment claims another reference base at the SNV
    for j, p in enumerate(SNV_POS):
        for wrong in "ACGT":
            if wrong == R[p]:
                continue
            a = rd("x", 8, [("M", 20)], {p: wrong if wrong != "A" else "C"})
            # MD tag computed against a reference that has `wrong` at p
            fake = R[:p] + wrong + R[p + 1:]
            a["md"] = synth.md_tag(fake, a["pos"], a["cigar"], a["seq"])
            path = os.path.join(str(d), "m_%d_%s.bam" % (p, wrong))
            synth.write_bam(path, RGS, [a, rd("y", 9, [("M", 15)], {17: "G"}, rg="rgC")])
            listed = wrong in SNV_ALLELES[j]
            r.evaluations += 1
            r.nontrivial += 1
            with pysam.AlignmentFile(path) as f:
                try:
                    extract_read_variants(loc_ok, f, samples="S1", id="SM", min_quality=0)
                    r.violation("ref-alignment-vs-snv|pos=%d|base=%s|listed-alt=%s" % (p, wrong, listed),
                                "the alignment's reference base %s at %d disagrees with the SNV file REF %s but the reads were used" % (wrong, p + 1, R[p]), payload)
                except ValueError:
                    r.outcome(("raised-bam", p, wrong))
                # the other sample's reads do not touch the bad alignment: no error
                try:
                    extract_read_variants(loc_ok, f, samples="S2", id="SM", min_quality=0)
                except ValueError as e:
                    r.violation("ref-alignment-other-sample|pos=%d|base=%s" % (p, wrong), "error raised for a sample whose reads are consistent: %s" % e, payload)
            prog = baseclass.program(vcf="", ref=fa, samples=["S1"], sample_bams={"S1": [("S1", path)]}, sample_ploidy={"S1": 2}, sample_inbreeding={"S1": 0.0},
                                     mapping_quality=0, info_fields=INFO.DEFAULT_FIELDS, format_fields=FORMAT.DEFAULT_FIELDS)
            data = prog._locus_data(loc_ok, prog.sample_bams)
            try:
                with env.app_warnings():
                    prog.encode_sample_reads(data)
                r.violation("ref-alignment-vs-snv-app|pos=%d|base=%s|listed-alt=%s" % (p, wrong, listed), "encode_sample_reads used reads whose alignment reference disagrees with the SNV file", payload)
            except Exception as e:  # noqa
                if not isinstance(synth.root_cause(e), ValueError):
                    r.violation("ref-alignment-vs-snv-app|pos=%d|base=%s|exc" % (p, wrong), "unexpected %r" % (synth.root_cause(e),), payload)
            env.quiet()
    r.sample({"reference_mismatch_cases": r.evaluations})
    return r


def job_windows(job):
    """Locus.set_sequence / set_variants: for EVERY window [s, e) of a region the locus holds exactly the SNVs of the SNV file with
    s <= pos < e (incl. SNVs on the first / last base), with their alleles; non-SNV records are ignored; duplicate positions merge."""
    from mchap.io import Locus

    _, ch, nch, _ = job
    r = Result()
    payload = {"kind": "job", "job": job}
    d = env.scratch_dir("c06w")
    fa = synth.write_ref(str(d))
    pos_alleles = {10: ("C",), 11: ("A", "G"), 15: ("C",), 20: ("A",), 21: ("C",), 29: ("G",), 30: ("T",)}
    pos_alleles = {p: tuple(a for a in al if a != R[p]) or (("A",) if R[p] != "A" else ("C",)) for p, al in pos_alleles.items()}
    lines = ["##fileformat=VCFv4.3", "##contig=<ID=chr1,length=%d>" % len(R), "##contig=<ID=chr2,length=60>", "#CHROM\tPOS\tID\tREF\tALT\tQUAL\tFILTER\tINFO"]
    recs = [(p, R[p], ",".join(al)) for p, al in pos_alleles.items()]
    recs.append((13, R[13:15], R[13]))                      # deletion: not an SNV
    recs.append((17, R[17], R[17] + "TT"))                  # insertion: not an SNV
    recs.append((24, R[24:26], "GG" if R[24:26] != "GG" else "CC"))  # MNP: not an SNV
    extra_alt = [b for b in "ACGT" if b != R[15] and b not in pos_alleles[15]][0]
    recs.append((15, R[15], extra_alt))                     # second record at an SNV position: alleles merge
    recs.append((15, R[15], pos_alleles[15][0] + "," + extra_alt))   # third record sharing ALTs with both: no allele may be listed twice
    recs.append((20, R[20], ",".join(pos_alleles[20])))    # exactly duplicated line
    for p, ref_, alt in sorted(recs, key=lambda t: t[0]):
        lines.append("chr1\t%d\t.\t%s\t%s\t.\t.\t." % (p + 1, ref_, alt))
    path = os.path.join(str(d), "w.vcf")
    with open(path, "w") as f:
        f.write("\n".join(lines) + "\n")
    vcf = synth.bgzip_tabix(path)
    merged = dict(pos_alleles)
    merged[15] = pos_alleles[15] + (extra_alt,)
    k = -1
    for s_ in range(5, 34):
        for e_ in range(s_ + 1, 36):
            k += 1
            if k % nch != ch:
                continue
            want = [(p, (R[p],) + merged[p]) for p in sorted(merged) if s_ <= p < e_]
            r.evaluations += 1
            if want:
                r.nontrivial += 1
            for order in ("seq-first", "variants-first"):
                base = Locus(CONTIG, s_, e_, "w", None, None)
                try:
                    loc = base.set_sequence(fa).set_variants(vcf) if order == "seq-first" else base.set_variants(vcf).set_sequence(fa)
                except Exception as e:  # noqa
                    r.violation("window-exception|%s" % type(e).__name__, "%s: %s for window [%d,%d) (%s)" % (type(e).__name__, e, s_, e_, order), payload)
                    continue
                got = [(v.start, tuple(v.alleles)) for v in loc.variants]
                if got != want or loc.sequence != R[s_:e_]:
                    r.violation("window-variants|first-base=%s|last-base=%s" % (any(p == s_ for p, _ in want), any(p == e_ - 1 for p, _ in want)),
                                "locus [%d,%d) holds SNVs %r, the SNV file has %r in that window (%s)" % (s_, e_, got, want, order), payload)
            r.outcome((s_, e_, len(want)))
    r.sample({"locus_windows": "all [s,e) with 5<=s<e<=35 on chr1", "snv_positions": sorted(merged)})
    return r
