"""C03  call-exact reports the true normalised posterior; streaming and full-array paths agree."""
import itertools
import math

import numpy as np

from ..result import Result
from .. import refmodel as ref
from .. import env

META = {
    "level": "exploration",
    "rule": "all (ploidy, haplotype set containing the reference row, frequency vector, F, read multiset over a per-site alphabet "
    "{gap, call of each allele, flat}) in the bound, evaluated on posterior_mode (all flag combinations), genotype_likelihoods/"
    "posteriors, posterior_allele_frequencies, alternate_dosage_posteriors; plus call_exact.program.call_sample_genotypes for "
    "every subset of the optional report fields; non-trivial = ploidy>=2, >=2 haplotypes and >=1 read",
    "bound": {"quick": "P<=4, H<=4 rows over 2 SNVs with (2,3) alleles, <=2 reads (soft alphabet; plus an alphabet of error-free calls giving exact zero likelihoods); 128 report subsets (all 64 FORMAT x {no INFO, all INFO})",
              "thorough": "<=3 reads (on a reduced alphabet), all 4096 report subsets"},
    "assumptions": ["float64 paths rtol 1e-9; float32 GL path |dlog p| <= 8*2^-23*max|llk| + 1e-6", "exact ties: any maximiser accepted"],
    "trusted_base": ["vmc/refmodel posterior"],
}

NA = (2, 3)  # alleles per SNV
ROWS = list(itertools.product(range(2), range(3)))  # 6 possible haplotype rows, ROWS[0] = reference


def site_letters(a, q):
    out = [("gap", [float("nan")] * 3)]
    for c in range(a):
        v = [(1 - q) / 3 if k < a else 0.0 for k in range(3)]
        v[c] = q
        out.append((str(c), v))
    out.append(("flat", [1.0 / a if k < a else 0.0 for k in range(3)]))
    return out


def letters(seed, reduced=False):
    q0 = [0.9, 0.93, 0.97, 0.85, 0.99][seed % 5]
    q1 = [0.95, 0.88, 0.91, 0.97, 0.9][seed % 5]
    s0, s1 = site_letters(NA[0], q0), site_letters(NA[1], q1)
    if reduced == 2:
        # error-free calls (probability exactly 1 / 0): genotypes lacking the called allele have likelihood exactly zero
        s0 = [s0[0], ("!0", [1.0, 0.0, 0.0]), ("!1", [0.0, 1.0, 0.0])]
        s1 = [s1[0], ("!0", [1.0, 0.0, 0.0]), ("!2", [0.0, 0.0, 1.0]), s1[2]]
    elif reduced:
        s0, s1 = s0[:3], s1[1:4]
    return [(a[0] + b[0], [a[1], b[1]]) for a in s0 for b in s1]


def hapsets(H):
    """all sets of H distinct rows that contain the reference row (kept first)"""
    return [(ROWS[0],) + c for c in itertools.combinations(ROWS[1:], H - 1)]


def freq_opts(H):
    out = [("none", None), ("flat", [1.0 / H] * H)]
    if H >= 2:
        w = [4, 2, 1, 3][:H]
        out.append(("skew", [x / sum(w) for x in w]))
        out.append(("zero-first", [0.0] + [1.0 / (H - 1)] * (H - 1)))
    if H >= 3:
        out.append(("zero-last", [1.0 / (H - 1)] * (H - 1) + [0.0]))
    return out


def warm(tier):
    env.quiet()
    from mchap.calling.exact import posterior_mode, genotype_likelihoods, genotype_posteriors, posterior_allele_frequencies

    haps = np.array([[0, 0], [1, 2]])
    R = np.array([[[0.9, 0.05, 0.0], [0.3, 0.3, 0.4]]])
    for C in (None, np.array([2])):
        for fr in (None, np.array([0.5, 0.5])):
            posterior_mode(R, 2, haps, C, 0.1, fr, True, True, True)
            l = genotype_likelihoods(R, 2, haps, C)
            p = genotype_posteriors(l, 2, 2, 0.1, fr)
            genotype_posteriors(l.astype(np.float64), 2, 2, 0.1, fr)
            posterior_allele_frequencies(p, 2, 2)
    import mchap.application.call_exact  # noqa

    env.quiet()



def setup_extra():
    from .. import cliflow

    for part in (("asm", 0), ("hand", 1)):
        cliflow.exact_flow(Result(), {}, 0, part)


def plan(tier, seed):
    jobs = []
    for P in (1, 2, 3, 4):
        for H in (1, 2, 3, 4):
            for si, hs in enumerate(hapsets(H)):
                jobs.append(("fn", P, H, si, seed, 2, 0, math.comb(H + P - 1, P) * 250))
                if P >= 2 and H >= 2 and (tier == "thorough" or si % 3 == 0):
                    jobs.append(("fn", P, H, si, seed, 2, 2, math.comb(H + P - 1, P) * 100))
                if tier == "thorough":
                    jobs.append(("fn", P, H, si, seed, 3, 1, math.comb(H + P - 1, P) * 300))
    n_sub = 128 if tier == "quick" else 4096
    nchunk = 16 if tier == "quick" else 64
    for ch in range(nchunk):
        jobs.append(("prog", n_sub, ch, nchunk, seed, 10 ** 6))
    for k in range(4):
        jobs.append(("big", k, seed, 50000))
    for P in (3, 4, 6):
        jobs.append(("deep", P, seed, 40000))
    for part in (("asm", 0), ("asm", 1), ("hand", 0), ("hand", 1)):
        jobs.append(("cliflow", seed, part, 10 ** 7))
    jobs.sort(key=lambda j: -j[-1])
    return jobs


def run_job(job):
    env.quiet()
    return {"fn": job_fn, "prog": job_prog, "big": job_big, "cliflow": job_cliflow, "deep": job_deep}[job[0]](job)


def job_deep(job):
    """deep samples: log-joints of the genotypes differ by thousands of nats, so every running sum has to be carried in log space relative to its maximum;
    both paths must still give the normalised posterior (GPM <= SPM <= 1, AFP sums to one)"""
    from mchap.calling.exact import posterior_mode, genotype_likelihoods, genotype_posteriors, posterior_allele_frequencies, alternate_dosage_posteriors

    _, P, seed, _ = job
    r = Result()
    payload = {"kind": "job", "job": job}
    hs = [(0, 0), (0, 1), (1, 0), (1, 1)]
    haps = np.array(hs)
    H = 4
    e = [0.01, 0.02, 0.005][seed % 3]
    truths = [g for g in ref.multisets(range(H), P) if len(set(g)) >= 2][:: 2 if P > 4 else 1]
    for truth in truths:
        for depth in (60, 700, 2500, 9000):
            reads, counts = [], []
            for a in sorted(set(truth)):
                reads.append([[1 - e if k == x else (e if k < 2 else 0.0) for k in range(3)] for x in hs[a]])
                counts.append(truth.count(a) * depth // P)
            R = np.array(reads, float)
            C = np.array(counts)
            for fname, fr in (("none", None), ("skew", [0.4, 0.3, 0.2, 0.1])):
                for F in (0.0, 0.2):
                    gens, post, llks = refpost(hs, P, fr, F, reads, counts)
                    afp, aop = functionals(gens, post, H, P)
                    pmax = max(post.values())
                    farr = None if fr is None else np.array(fr)
                    tag = "deep|P=%d|truth=%s|depth=%d|freq=%s|F=%g" % (P, truth, depth, fname, F)
                    r.evaluations += 1
                    r.nontrivial += 1
                    res = posterior_mode(R, P, haps, C, F, farr, True, True, True)
                    gt = tuple(int(x) for x in res[0])
                    gpm, spm = float(res[2]), float(res[3])
                    fq, oc = np.asarray(res[-2], float), np.asarray(res[-1], float)
                    bad = []
                    if gt not in post or post[gt] < pmax * (1 - 1e-9):
                        bad.append("GT %r is not the posterior maximiser" % (gt,))
                    else:
                        sup = sum(v for g, v in post.items() if set(g) == set(gt))
                        if not (abs(gpm - post[gt]) <= 1e-9) or not (abs(spm - sup) <= 1e-9) or not (gpm <= spm + 1e-12 <= 1 + 2e-12):
                            bad.append("GPM %.12g / SPM %.12g, reference %.12g / %.12g" % (gpm, spm, post[gt], sup))
                    if not np.allclose(fq, afp, rtol=0, atol=1e-9) or not np.allclose(oc, aop, rtol=0, atol=1e-9) or not (abs(fq.sum() - 1) <= 1e-9):
                        bad.append("AFP %r / AOP %r, reference %r / %r" % (fq.tolist(), oc.tolist(), afp, aop))
                    for b in bad:
                        r.violation("deep-stream|P=%d|freq=%s|F=%g" % (P, fname, F), "%s (%s)" % (b, tag), payload)
                    # full-array path (float32 likelihoods): same call, posterior within single-precision rounding of the log-likelihoods
                    l32 = genotype_likelihoods(R, P, haps, C)
                    gp = np.asarray(genotype_posteriors(l32, P, H, F, farr), float)
                    order = sorted(gens, key=lambda g: tuple(reversed(g)))
                    maxl = max(abs(v) for v in llks.values() if v > -math.inf)
                    tol = 8 * 2.0 ** -23 * maxl + 1e-6
                    want = np.array([post[g] for g in order])
                    if len(gp) != len(order) or not (abs(gp.sum() - 1) <= 1e-6) or np.abs(gp - want).max() > tol:
                        r.violation("deep-array|P=%d|freq=%s|F=%g" % (P, fname, F), "full-array posterior differs from the reference by %.3g (allowed %.3g), sum %.9g (%s)" % (
                            np.abs(gp - want).max() if len(gp) == len(order) else -1, tol, gp.sum(), tag), payload)
                    else:
                        top = order[int(np.argmax(gp))]
                        _, sp = alternate_dosage_posteriors(np.array(top), gp)
                        f2, c2, o2 = posterior_allele_frequencies(gp, P, H)
                        if not (float(np.sum(sp)) <= 1 + 1e-6) or not (abs(float(np.sum(f2)) - 1) <= 1e-6):
                            r.violation("deep-array-functionals|P=%d" % P, "support probability %.9g, AFP sum %.9g (%s)" % (float(np.sum(sp)), float(np.sum(f2)), tag), payload)
                    r.outcome((tag, gt))
    r.sample({"deep_samples": "ploidy %d, depths 60..9000 reads at error %g" % (P, e), "truth_genotypes": len(truths)}, cap=1)
    return r


def job_cliflow(job):
    """`mchap call-exact` command line with per-sample ploidy / inbreeding files vs the reference posterior (vmc/cliflow.py)"""
    from .. import cliflow

    r = Result()
    cliflow.exact_flow(r, {"kind": "job", "job": job}, job[1], tuple(job[2]))
    return r


def job_big(job):
    """many haplotypes (> 127 alleles) and a high ploidy (>= 12): the called genotype must still be the posterior maximiser on both paths"""
    from mchap.calling.exact import posterior_mode, genotype_likelihoods, genotype_posteriors

    _, k, seed, _ = job
    r = Result()
    payload = {"kind": "job", "job": job}
    cfgs = [(140, 2, (131, 137)), (150, 2, (5, 149)), (3, 12, (0, 1)), (4, 13, (1, 3))]
    H, P, support = cfgs[k]
    nb = 8 if H > 16 else 2
    rows = list(itertools.product(range(2), repeat=nb))[:H]
    haps = np.array(rows)
    e = [0.02, 0.05, 0.01][seed % 3]
    reads, counts = [], []
    for a in support:
        reads.append([[1 - e if x == b else e for b in range(2)] + [0.0] for x in rows[a]])
        counts.append(3)
    reads[0][0] = [float("nan")] * 3
    R = np.array(reads, float)
    C = np.array(counts)
    rref = [[None if all(v != v for v in s) else s for s in rd] for rd in reads]
    fr = [1.0 + 0.5 * (i % 3) for i in range(H)]
    fr = [x / sum(fr) for x in fr]
    gens, post, llks = refpost([tuple(x) for x in rows], P, fr, 0.1, rref, counts)
    pmax = max(post.values())
    best = [g for g, v in post.items() if v >= pmax - 1e-12]
    farr = np.array(fr)
    tag = "H=%d|P=%d" % (H, P)
    res = posterior_mode(R, P, haps, C, 0.1, farr, True, True, True)
    mg = tuple(int(x) for x in res[0])
    r.evaluations += 1
    r.nontrivial += 1
    if mg not in best:
        r.violation("big-stream-mode|" + tag, "streaming path calls %r (posterior %.6g); the maximiser is %r (%.6g)" % (mg, post.get(mg, float("nan")), best[0], pmax), payload)
    else:
        sup = sum(v for g, v in post.items() if set(g) == set(mg))
        if abs(res[2] - post[mg]) > 1e-9 or abs(res[3] - sup) > 1e-9 or not (res[2] <= res[3] + 1e-12):
            r.violation("big-stream-stats|" + tag, "GPM/SPM %.9g/%.9g, reference %.9g/%.9g" % (res[2], res[3], post[mg], sup), payload)
    order = sorted(gens, key=lambda g: tuple(reversed(g)))
    l32 = genotype_likelihoods(R, P, haps, C)
    gp = genotype_posteriors(l32, P, H, 0.1, farr)
    from mchap.jitutils import index_as_genotype_alleles

    idx = int(np.argmax(gp))
    al = tuple(int(x) for x in index_as_genotype_alleles(idx, P))
    r.evaluations += 1
    if al != order[idx] or post[order[idx]] < pmax * (1 - 1e-4):
        r.violation("big-array-mode|" + tag, "full-array path: arg-max index %d decodes to %r, VCF order has %r (posterior %.6g, maximum %.6g)" % (idx, al, order[idx], post[order[idx]], pmax), payload)
    r.outcome((tag, mg))
    r.sample({"large_instance": tag, "genotypes": len(gens), "called": mg})
    return r


def refpost(haps, P, freqs, F, reads_ref, counts):
    """reference posterior, normalised in log space (deep samples have likelihoods far below the smallest double)"""
    H = len(haps)
    fr = [1.0 / H] * H if freqs is None else freqs
    gens = ref.multisets(range(H), P)
    lj, llks = {}, {}
    for g in gens:
        pr = ref.dm_prior(g, fr, F)
        l = ref.llk(reads_ref, counts, [haps[a] for a in g])
        llks[g] = l
        lj[g] = math.log(pr) + l if pr > 0 and l > -math.inf else -math.inf
    m = max(lj.values())
    w = {g: (math.exp(v - m) if v > -math.inf else 0.0) for g, v in lj.items()}
    z = sum(w.values())
    return gens, {g: v / z for g, v in w.items()}, llks


def functionals(gens, post, H, P):
    afp = [sum(v * g.count(a) for g, v in post.items()) / P for a in range(H)]
    aop = [sum(v for g, v in post.items() if a in g) for a in range(H)]
    return afp, aop


def job_fn(job):
    from mchap.calling.exact import (posterior_mode, genotype_likelihoods, genotype_posteriors,
                                     posterior_allele_frequencies, alternate_dosage_posteriors)

    _, P, H, si, seed, maxR, reduced, _ = job
    r = Result()
    payload = {"kind": "job", "job": job}
    hs = hapsets(H)[si]
    haps = np.array(hs)
    L = letters(seed, reduced)
    flagsets = list(itertools.product((False, True), repeat=3))
    case = 0
    for fname, fr in freq_opts(H):
        farr = None if fr is None else np.array(fr)
        for F in (0.0, 0.004, 0.25):
            for k in range(0, maxR + 1):
                for combo in itertools.combinations_with_replacement(range(len(L)), k):
                    case += 1
                    reads = [L[i][1] for i in combo]
                    counts = [1 + 2 * (i % 2) for i in range(k)]
                    if k == 0:
                        R = np.empty((0, 2, 3))
                        C = np.empty(0, int)
                    else:
                        R = np.array(reads, float)
                        C = np.array(counts)
                    rref = [[None if all(v != v for v in s) else s for s in rd] for rd in reads]
                    if reduced == 2 and all(ref.dm_prior(g, fr or [1.0 / H] * H, F) == 0 or ref.llk(rref, counts, [hs[a] for a in g]) == -math.inf
                                            for g in ref.multisets(range(H), P)):
                        r.count("no-genotype-possible")  # the reads exclude every genotype: no posterior exists
                        continue
                    gens, post, llks = refpost(hs, P, fr, F, rref, counts)
                    order = sorted(gens, key=lambda g: tuple(reversed(g)))
                    afp, aop = functionals(gens, post, H, P)
                    pmax = max(post.values())
                    tag = "P=%d|haps=%s|freq=%s|F=%g|reads=%s" % (P, hs, fname, F, [L[i][0] for i in combo])
                    r.evaluations += 1
                    if P >= 2 and H >= 2 and k >= 1:
                        r.nontrivial += 1
                    # ---- streaming path
                    res = posterior_mode(R, P, haps, C, F, farr, True, True, True)
                    mg = tuple(int(x) for x in res[0])
                    if list(mg) != sorted(mg) or mg not in post:
                        r.violation("mode-shape|" + tag, "mode genotype %r is not a sorted genotype over %d alleles" % (mg, H), payload)
                        continue
                    bad = []
                    if post[mg] < pmax - 1e-12:
                        bad.append("GT %r has posterior %.12g but the maximum is %.12g" % (mg, post[mg], pmax))
                    if abs(res[2] - post[mg]) > 1e-9:
                        bad.append("GPM %.12g != posterior of GT %.12g" % (res[2], post[mg]))
                    if abs(res[1] - llks[mg]) > 1e-9 * max(1, abs(llks[mg])):
                        bad.append("mode llk %.12g != %.12g" % (res[1], llks[mg]))
                    sup = sum(v for g, v in post.items() if set(g) == set(mg))
                    if abs(res[3] - sup) > 1e-9:
                        bad.append("SPM %.12g != total posterior of genotypes with the same allele set %.12g" % (res[3], sup))
                    if np.abs(np.array(res[4]) - afp).max() > 1e-9:
                        bad.append("AFP %r != posterior mean frequencies %r" % (np.array(res[4]).tolist(), afp))
                    if np.abs(np.array(res[5]) - aop).max() > 1e-9:
                        bad.append("AOP %r != occurrence probabilities %r" % (np.array(res[5]).tolist(), aop))
                    if abs(sum(res[4]) - 1) > 1e-9 or not (res[2] <= res[3] + 1e-12 <= 1 + 1e-9):
                        bad.append("sum AFP=%.12g GPM=%.12g SPM=%.12g" % (sum(res[4]), res[2], res[3]))
                    for b in bad:
                        r.violation("stream|" + tag, b, payload)
                    if case % 7 == 0:
                        for fl in flagsets:
                            rr = posterior_mode(R, P, haps, C, F, farr, *fl)
                            want_len = 3 + sum(fl)
                            full = list(res[:3]) + [x for x, f in zip(res[3:], fl) if f]
                            same = len(rr) == want_len and all(np.allclose(np.asarray(a, float), np.asarray(b, float), rtol=0, atol=1e-12) for a, b in zip(rr, full))
                            if not same:
                                r.violation("stream-flags|" + tag + "|flags=%s" % (fl,), "result depends on which statistics were requested", payload)
                    # ---- full-array path
                    l32 = genotype_likelihoods(R, P, haps, C)
                    if len(l32) != len(order):
                        r.violation("gl-len|" + tag, "GL has %d entries, expected %d" % (len(l32), len(order)), payload)
                        continue
                    maxl = max([abs(v) for v in llks.values() if v > -math.inf] + [1.0])
                    tol32 = 8 * 2.0 ** -23 * maxl + 1e-6
                    for i, g in enumerate(order):
                        if llks[g] == -math.inf:
                            ok = l32[i] == -np.inf
                        else:
                            ok = abs(float(l32[i]) - llks[g]) <= tol32
                        if not ok:
                            r.violation("gl|" + tag + "|g=%s" % (g,), "GL[%d]=%.9g but llk of genotype %r (VCF order) is %.9g" % (i, l32[i], g, llks[g]), payload)
                            break
                    gp64 = genotype_posteriors(np.array([llks[g] for g in order]), P, H, F, farr)
                    dev = max(abs(gp64[i] - post[g]) for i, g in enumerate(order))
                    r.maxi("gp64_dev", dev)
                    if dev > 1e-9:
                        r.violation("gp|" + tag, "genotype_posteriors deviates from the normalised likelihood x prior by %.3g" % dev, payload)
                    gp32 = genotype_posteriors(l32, P, H, F, farr)
                    for i, g in enumerate(order):
                        a, b = gp32[i], post[g]
                        if (b == 0) != (a == 0) or (b > 0 and abs(math.log(a) - math.log(b)) > 2 * tol32 * max(1.0, sum(counts) if counts else 1)):
                            r.violation("gp32|" + tag + "|g=%s" % (g,), "GP from float32 GL %.9g vs reference %.9g" % (a, b), payload)
                            break
                    f2, c2, o2 = posterior_allele_frequencies(gp64, P, H)
                    if np.abs(f2 - afp).max() > 1e-9 or np.abs(c2 - np.array(afp) * P).max() > 1e-9 or np.abs(o2 - aop).max() > 1e-9:
                        r.violation("afp-array|" + tag, "posterior_allele_frequencies %r/%r/%r != %r/%r" % (f2.tolist(), c2.tolist(), o2.tolist(), afp, aop), payload)
                    gs, ps = alternate_dosage_posteriors(np.array(mg), gp64)
                    want = sorted((g for g in gens if set(g) == set(mg)), key=lambda g: tuple(reversed(g)))
                    if [tuple(x) for x in gs.tolist()] != want or abs(ps.sum() - sup) > 1e-9:
                        r.violation("altdose|" + tag, "alternate_dosage_posteriors genotypes %r (want %r) sum %.12g (want %.12g)" % (gs.tolist(), want, ps.sum(), sup), payload)
                    r.outcome((round(post[mg], 9), mg))
                    if case == 50:
                        r.sample({"ploidy": P, "haplotypes": hs, "freq": fname, "F": F, "reads": [L[i][0] for i in combo], "counts": counts,
                                  "GT": mg, "GPM": float(res[2]), "SPM": float(res[3])})
    return r


# --------------------------------------------------------------------------- program level
def build_locus(hs, freqs, mask):
    from mchap.io.loci import LocusPrior, SNP

    chars0, chars1 = "AC", "AGT"
    strings = ["T" + chars0[a] + "T" + chars1[b] for (a, b) in hs]
    variants = (SNP("chr1", 11, 12, ".", tuple(chars0)), SNP("chr1", 13, 14, ".", tuple(chars1)))
    fr = np.array([1.0 / len(hs)] * len(hs) if freqs is None else freqs, float)
    return LocusPrior("chr1", 10, 14, "loc", strings[0], variants, tuple(strings[1:]), fr, mask)


def job_prog(job):
    import mchap.io.vcf.infofields as INFO
    import mchap.io.vcf.formatfields as FORMAT
    from mchap.application import call_exact

    env.quiet()
    _, n_sub, ch, nchunk, seed, _ = job
    r = Result()
    payload = {"kind": "job", "job": job}
    L = letters(seed)
    fopt = FORMAT.OPTIONAL_FIELDS
    iopt = INFO.OPTIONAL_FIELDS
    if n_sub == 128:
        subsets = [(fs, isub) for fs in itertools.product((0, 1), repeat=6) for isub in ((0,) * 6, (1,) * 6)]
    else:
        subsets = [(fs, isub) for fs in itertools.product((0, 1), repeat=6) for isub in itertools.product((0, 1), repeat=6)]
    subsets = [s for i, s in enumerate(subsets) if i % nchunk == ch]
    instances = []
    for (P1, P2, hs, fr, mask, rs) in [
        (2, 4, (ROWS[0], ROWS[2], ROWS[4]), None, False, (3, 8, 14)),
        (3, 1, (ROWS[0], ROWS[1], ROWS[3], ROWS[5]), [0.4, 0.3, 0.2, 0.1], False, (5, 9)),
        (4, 2, (ROWS[0], ROWS[3], ROWS[4]), [0.0, 0.5, 0.5], True, (2, 13, 7)),
        (2, 2, (ROWS[0], ROWS[5]), None, False, ()),
    ]:
        instances.append((P1, P2, hs, fr, mask, rs))
    for ii, (P1, P2, hs, fr, mask, rs) in enumerate(instances):
        locus = build_locus(hs, fr, mask)
        haps = locus.encode_haplotypes()
        assert haps.tolist() == [list(x) for x in hs], (haps.tolist(), hs)
        reads = [L[(i + seed) % len(L)][1] for i in rs]
        counts = [1 + (i % 3) for i in range(len(rs))]
        R = np.array(reads, float).reshape(len(reads), 2, 3)
        C = np.array(counts, int)
        rref = [[None if all(v != v for v in s) else s for s in rd] for rd in reads]
        samples = {"s1": P1, "s2": P2}
        refs = {}
        for s, P in samples.items():
            gens, post, llks = refpost(hs, P, fr, 0.1 if s == "s1" else 0.0, rref, counts)
            refs[s] = (gens, post, llks, functionals(gens, post, len(hs), P))
        for fs, isub in subsets:
            ff = FORMAT.DEFAULT_FIELDS + [f for f, b in zip(fopt, fs) if b]
            inf = INFO.DEFAULT_FIELDS + [f for f, b in zip(iopt, isub) if b]
            prog = call_exact.program(vcf="", ref="", samples=list(samples), sample_bams={s: [] for s in samples},
                                      sample_ploidy=dict(samples), sample_inbreeding={"s1": 0.1, "s2": 0.0},
                                      info_fields=inf, format_fields=ff)
            data = prog._locus_data(locus, prog.sample_bams)
            for s in samples:
                data.read_calls[s] = np.zeros((len(reads), 2), int)
                data.read_dists[s] = R
                data.read_counts[s] = C
            with env.app_warnings():
                prog.call_sample_genotypes(data)
            r.evaluations += 1
            r.nontrivial += 1
            tagb = "prog|inst=%d|format=%s|info=%s" % (ii, [f.id for f, b in zip(fopt, fs) if b], [f.id for f, b in zip(iopt, isub) if b])
            full = (FORMAT.GL in ff) or (FORMAT.GP in ff)
            # independent of program.require_AFP(): posterior allele statistics are needed whenever any of them is reported
            need_afp = any(b for n, b in zip([f.id for f in fopt], fs) if n in ("ACP", "AFP", "AOP")) or any(
                b for n, b in zip([f.id for f in iopt], isub) if n in ("ACP", "AFP", "AOP", "AOPSUM"))
            for s, P in samples.items():
                gens, post, llks, (afp, aop) = refs[s]
                order = sorted(gens, key=lambda g: tuple(reversed(g)))
                maxl = max([abs(v) for v in llks.values() if v > -math.inf] + [1.0])
                tol = (4 * 8 * 2.0 ** -23 * maxl + 1e-5) if full else 1e-9
                gt = tuple(int(x) for x in data.sampledata[FORMAT.GT][s])
                bad = []
                pmax = max(post.values())
                if gt not in post:
                    bad.append("GT %r is not a sorted genotype" % (gt,))
                else:
                    if post[gt] < pmax * (1 - tol) - 1e-12:
                        bad.append("GT %r has posterior %.9g, maximum %.9g" % (gt, post[gt], pmax))
                    if abs(data.sampledata[FORMAT.GPM][s] - post[gt]) > tol * max(1.0, 1.0):
                        bad.append("GPM %.9g != %.9g" % (data.sampledata[FORMAT.GPM][s], post[gt]))
                    sup = sum(v for g, v in post.items() if set(g) == set(gt))
                    if abs(data.sampledata[FORMAT.SPM][s] - sup) > tol:
                        bad.append("SPM %.9g != %.9g" % (data.sampledata[FORMAT.SPM][s], sup))
                if need_afp:
                    for fld, want in ((FORMAT.AFP, afp), (FORMAT.AOP, aop), (FORMAT.ACP, [x * P for x in afp])):
                        got = data.sampledata[fld].get(s)
                        if got is None or len(got) != len(want) or np.abs(np.array(got) - want).max() > tol * P:
                            bad.append("%s %r != %r" % (fld.id, None if got is None else np.array(got).tolist(), want))
                if FORMAT.GP in ff:
                    gp = data.sampledata[FORMAT.GP][s]
                    if len(gp) != len(order) or max(abs(gp[i] - post[g]) for i, g in enumerate(order)) > tol:
                        bad.append("GP differs from the reference posterior in VCF order")
                if FORMAT.GL in ff:
                    gl = data.sampledata[FORMAT.GL][s]
                    want = [llks[g] / math.log(10) for g in order]
                    if len(gl) != len(order) or max(abs(gl[i] - want[i]) for i in range(len(order)) if want[i] > -math.inf) > tol * maxl:
                        bad.append("GL differs from log10 likelihoods in VCF order")
                for b in bad:
                    r.violation(tagb + "|sample=%s" % s, b, payload)
                r.outcome((ii, s, gt, full, need_afp))
        r.sample({"program": "call-exact", "instance": ii, "haplotypes": hs, "ploidies": samples, "report_subsets": len(subsets)}, cap=2)
    return r
