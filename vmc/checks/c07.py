"""C07  Output VCF records are well-formed and internally consistent.

The four programs run in-process on a synthetic data set whose loci hit every record shape, for
every / many subsets of the optional report fields.  (The samplers' fit() is memoised per process:
its determinism given inputs + seed is C08's subject; this only removes repeated identical MCMC runs.)
The LocusAssemblyData of every record is captured before formatting to obtain the internal values."""
import copy
import itertools
import os

import numpy as np

from ..result import Result
from .. import env, stddata, synth, vcfparse
from ..synth import REF
from ..seams import patched

META = {
    "level": "exploration",
    "rule": "case = (program, data configuration, subset of the 12 optional report fields, record); records are parsed by an independent text parser "
    "(and the whole output by pysam.VariantFile): declared keys, Number=1/A/R/G cardinalities for the record's allele count and the sample's ploidy, GT shape/sort, "
    "REF = reference[POS..END], ALT vs SNVPOS and the input variants, AC/AN/UAN/NS/DP/RCOUNT/ACP/AFP/AOP/AOPSUM recomputed from the sample data, every number = "
    "internal value rounded to 3 decimals; non-trivial = record with >= 1 ALT or a special shape (REFMASKED, NOA/AF0, no SNV, no reads)",
    "bound": {"quick": "9 program/data configurations x 258 report subsets (all 64 FORMAT x {no,all INFO} + all 64 INFO x {no,all FORMAT})",
              "thorough": "all 4096 report subsets"},
    "assumptions": ["sampler fits are memoised on (class, parameters, reads, counts) within a process", "printed numbers: at most 3 decimals and |printed - internal| <= 0.0005"],
    "trusted_base": ["vmc/vcfparse.py", "pysam.VariantFile (second opinion only)"],
}

SNV_ALLELES = {(c, p): (r,) + tuple(a) for c, p, r, a in stddata.SNVS}


def hand_vcf(D):
    """haplotype VCF with special record shapes as input for the callers"""
    l1 = REF["chr1"][8:30]
    l3 = REF["chr2"][5:25]
    l5 = REF["chr1"][36:48]
    l2 = REF["chr1"][50:58]
    l4 = REF["chr2"][34:48]

    def mut(seq, start, changes):
        s = list(seq)
        for pos, b in changes.items():
            s[pos - start] = b
        return "".join(s)

    a1 = mut(l1, 8, {12: "C", 17: "G"})
    a2 = mut(l1, 8, {12: "C", 17: "T", 22: "A"})
    a3 = mut(l1, 8, {22: "A"})
    b1 = mut(l3, 5, {10: SNV_ALLELES[("chr2", 10)][1], 14: SNV_ALLELES[("chr2", 14)][1]})
    b2 = mut(l3, 5, {10: SNV_ALLELES[("chr2", 10)][1]})
    c1 = mut(l4, 34, {40: SNV_ALLELES[("chr2", 40)][1]})
    lines = ["##fileformat=VCFv4.3"]
    for k, v in REF.items():
        lines.append("##contig=<ID=%s,length=%d>" % (k, len(v)))
    lines += ['##INFO=<ID=REFMASKED,Number=0,Type=Flag,Description="masked">', '##INFO=<ID=XF,Number=R,Type=Float,Description="freq">',
              '##INFO=<ID=XC,Number=A,Type=Integer,Description="count">', "#CHROM\tPOS\tID\tREF\tALT\tQUAL\tFILTER\tINFO"]
    lines.append("chr1\t9\tH1\t%s\t%s,%s,%s\t.\t.\tXF=0.5,0.3,0.2,0;XC=3,2,0" % (l1, a1, a2, a3))       # last allele zero prior
    lines.append("chr1\t37\tH5\t%s\t.\t.\t.\tREFMASKED;XF=1" % l5)                                         # masked reference, no ALT -> NOA
    lines.append("chr1\t51\tH2\t%s\t.\t.\t.\tXF=1" % l2)                                                  # no SNV, ALT-less
    lines.append("chr2\t6\tH3\t%s\t%s,%s\t.\t.\tREFMASKED;XF=0.2,0.5,0.3;XC=5,3" % (l3, b1, b2))           # masked reference with ALTs
    lines.append("chr2\t35\tH4\t%s\t%s\t.\t.\tXF=0,0;XC=0" % (l4, c1))                                     # all-zero frequencies -> AF0
    p = os.path.join(D.dir, "hand.vcf")
    with open(p, "w") as f:
        f.write("\n".join(lines) + "\n")
    return synth.bgzip_tabix(p)


CONFIGS = ["assemble", "assemble-thr0.9", "assemble-thr1.0", "call", "call-exact", "call-pedigree", "call-hand", "call-exact-hand", "call-pedigree-hand"]


def subsets(tier):
    six = list(itertools.product((0, 1), repeat=6))
    if tier == "thorough":
        return [(f, i) for f in six for i in six]
    out = [(f, i) for f in six for i in ((0,) * 6, (1,) * 6)] + [(f, i) for i in six for f in ((0,) * 6, (1,) * 6)]
    return sorted(set(out))


def warm(tier):
    env.quiet()
    d = env.scratch_dir("c07w")
    D = stddata.Data(d)
    o = stddata.run(D.assemble_args(bed=D.bed_subset(["L1", "L2"], "w.bed"), report=["GP", "GL", "AFP"]))
    hv = D.save_vcf(o, "w.vcf")
    for prog in ("call", "call-exact", "call-pedigree"):
        stddata.run(D.call_args(prog, hv, report=["GP", "GL", "AFP"], extra=D.pedigree_files() if prog == "call-pedigree" else []))
    env.quiet()


def plan(tier, seed):
    subs = subsets(tier)
    nchunk = 8 if tier == "quick" else 32
    jobs = []
    for cfg in CONFIGS:
        for ch in range(nchunk):
            jobs.append(("run", cfg, tier, ch, nchunk, seed, len(subs) // nchunk * (3 if "assemble" in cfg else 1)))
    jobs.sort(key=lambda j: -j[-1])
    return jobs


def run_job(job):
    env.quiet()
    return job_run(job)


_MEMO = {}


def memoised(cls):
    class M(cls):
        def fit(self, *a, **k):
            key = (cls.__name__, repr(sorted((n, (v.tobytes() if isinstance(v, np.ndarray) else repr(v))) for n, v in vars(self).items())),
                   tuple((x.tobytes(), x.shape) if isinstance(x, np.ndarray) else repr(x) for x in a),
                   tuple((n, (x.tobytes(), x.shape) if isinstance(x, np.ndarray) else repr(x)) for n, x in sorted(k.items())))
            if key not in _MEMO:
                _MEMO[key] = cls.fit(self, *a, **k)
            return copy.deepcopy(_MEMO[key])

    M.__name__ = cls.__name__
    return M


def job_run(job):
    import pysam
    import mchap.application.assemble as m_asm
    import mchap.application.call as m_call
    import mchap.application.call_pedigree as m_ped
    import mchap.application.baseclass as bc
    import mchap.io.vcf.infofields as INFO
    import mchap.io.vcf.formatfields as FORMAT

    env.quiet()
    _, cfg, tier, ch, nchunk, seed, _ = job
    r = Result()
    payload = {"kind": "job", "job": job}
    d = env.scratch_dir("c07")
    D = stddata.Data(d)
    fopt = [f.id for f in FORMAT.OPTIONAL_FIELDS]
    iopt = [f.id for f in INFO.OPTIONAL_FIELDS]
    captured = []
    real_fmt = bc.LocusAssemblyData.format_vcf_record

    def capture(self):
        captured.append(dict(info={f.id: copy.deepcopy(self.infodata[f]) for f in self.infofields},
                             sample={f.id: {s: copy.deepcopy(self.sampledata[f].get(s)) for s in self.samples} for f in self.formatfields},
                             sample_all={f.id: {s: copy.deepcopy(v.get(s)) for s in self.samples} for f, v in self.sampledata.items() if len(v)},
                             ploidy=dict(self.sample_ploidy), samples=list(self.samples)))
        return real_fmt(self)

    patches = [(m_asm, "DenovoMCMC", memoised(m_asm.DenovoMCMC)), (m_call, "CallingMCMC", memoised(m_call.CallingMCMC)),
               (m_ped, "PedigreeCallingMCMC", memoised(m_ped.PedigreeCallingMCMC)), (bc.LocusAssemblyData, "format_vcf_record", capture)]
    with patched(*patches):
        prog = cfg.replace("-hand", "").replace("-thr0.9", "").replace("-thr1.0", "")
        if prog == "assemble":
            base_extra = ["--haplotype-posterior-threshold", cfg.split("-thr")[1]] if "-thr" in cfg else []
            hv = None
        elif cfg.endswith("-hand"):
            hv = hand_vcf(D)
            base_extra = ["--prior-frequencies", "XF"]
        else:
            asm_out = stddata.run(D.assemble_args())
            hv = D.save_vcf(asm_out, "asm_in.vcf")
            base_extra = []
        if prog == "call-pedigree":
            base_extra = base_extra + D.pedigree_files()
        inputs = None if hv is None else input_alleles(hv)
        captured.clear()
        for si, (fs, isub) in enumerate(subsets(tier)):
            if si % nchunk != ch:
                continue
            report = ["FORMAT/" + n for n, b in zip(fopt, fs) if b] + ["INFO/" + n for n, b in zip(iopt, isub) if b]
            argv = D.assemble_args(report=report, extra=base_extra) if prog == "assemble" else D.call_args(prog, hv, report=report, extra=base_extra)
            captured.clear()
            tag0 = "%s|report=%s" % (cfg, ",".join(report) or "-")
            try:
                out = stddata.run(argv)
            except Exception as e:  # noqa
                e = synth.root_cause(e)
                r.violation("run-exception|%s|%s" % (cfg, type(e).__name__), "%s: %s (%s)" % (type(e).__name__, str(e)[:200], tag0), payload)
                env.quiet()
                continue
            env.quiet()
            hdr, samples, recs = vcfparse.parse(out)
            if len(recs) != len(captured):
                r.violation("records|%s" % cfg, "%d record lines but %d loci formatted (%s)" % (len(recs), len(captured), tag0), payload)
                continue
            if si % 16 == 0:
                p = os.path.join(D.dir, "o%d.vcf" % si)
                with open(p, "w") as f:
                    f.write(out)
                try:
                    with pysam.VariantFile(p) as vf:
                        n = sum(1 for _ in vf)
                    if n != len(recs):
                        r.violation("pysam|%s" % cfg, "pysam iterates %d of %d records (%s)" % (n, len(recs), tag0), payload)
                except Exception as e:  # noqa
                    r.violation("pysam|%s" % cfg, "pysam cannot read the output: %s (%s)" % (e, tag0), payload)
                os.remove(p)
            for rec, cap in zip(recs, captured):
                r.evaluations += 1
                special = bool(rec["alt"]) or "REFMASKED" in rec["info"] or rec["filter"] not in ("PASS", ".") or rec["info"].get("NVAR") == ["0"]
                if special:
                    r.nontrivial += 1
                tag = "%s|%s:%d %s" % (tag0, rec["chrom"], rec["pos"], rec["id"])
                for rule, detail in vcfparse.check_record(hdr, samples, rec, stddata.PLOIDY):
                    r.violation("wellformed|%s|%s" % (cfg, rule), "%s (%s)" % (detail, tag), payload)
                check_sequences(r, payload, cfg, rec, tag, None if hv is None else inputs)
                check_summaries(r, payload, cfg, rec, cap, samples, tag)
                check_rounding(r, payload, cfg, rec, cap, samples, hdr, tag)
                r.outcome((cfg, rec["id"], len(rec["alt"]), rec["filter"], tuple(sorted(rec["info"]))[:3], tuple(rec["fmt"])))
        r.sample({"configuration": cfg, "example_record": recs[0]["line"][:300] if "recs" in dir() and recs else None}, cap=1)
    return r


def input_alleles(hv):
    """position -> set of (REF, ALT...) strings of the haplotype VCF given to a caller"""
    import gzip

    out = {}
    with gzip.open(hv, "rt") as f:
        for l in f:
            if l.startswith("#") or not l.strip():
                continue
            t = l.split("\t")
            out[(t[0], int(t[1]))] = [t[3]] + ([] if t[4] == "." else t[4].split(","))
    return out


def check_sequences(r, payload, cfg, rec, tag, inputs=None):
    ref = REF[rec["chrom"]]
    end = int(rec["info"]["END"][0]) if "END" in rec["info"] else rec["pos"] + len(rec["ref"]) - 1
    if rec["ref"] != ref[rec["pos"] - 1:end] or end - rec["pos"] + 1 != len(rec["ref"]):
        r.violation("ref-sequence|%s" % cfg, "REF %s is not the reference sequence of [%d, %d] (%s)" % (rec["ref"], rec["pos"], end, tag), payload)
        return
    snvpos = [] if rec["info"].get("SNVPOS") in (None, ["."]) else [int(x) for x in rec["info"]["SNVPOS"]]
    nvar = rec["info"].get("NVAR")
    if nvar is not None and int(nvar[0]) != len(snvpos):
        r.violation("nvar|%s" % cfg, "NVAR=%s but %d SNVPOS (%s)" % (nvar[0], len(snvpos), tag), payload)
    for a in rec["alt"]:
        for k, (x, y) in enumerate(zip(rec["ref"], a)):
            if x != y:
                if (k + 1) not in snvpos:
                    r.violation("alt-outside-snvpos|%s" % cfg, "ALT %s differs from REF at offset %d which is not in SNVPOS %r (%s)" % (a, k + 1, snvpos, tag), payload)
                elif inputs is not None:
                    if a not in inputs.get((rec["chrom"], rec["pos"]), []):
                        r.violation("alt-allele|%s" % cfg, "ALT %s is not a haplotype of the input record at %s:%d (%s)" % (a, rec["chrom"], rec["pos"], tag), payload)
                elif y not in SNV_ALLELES.get((rec["chrom"], rec["pos"] - 1 + k), ()):
                    r.violation("alt-allele|%s" % cfg, "ALT %s uses base %s at %s:%d which is not an allele of the input variant (%s)" % (a, y, rec["chrom"], rec["pos"] + k, tag), payload)


def fnum(x):
    return float("nan") if x in (".", None) else float(x)


def check_summaries(r, payload, cfg, rec, cap, samples, tag):
    nalt = len(rec["alt"])
    gts = [[None if a == "." else int(a) for a in vcfparse.gt_alleles(s["GT"])] for s in rec["samples"]]
    counts = [0] * (nalt + 1)
    for g in gts:
        for a in g:
            if a is not None and 0 <= a <= nalt:
                counts[a] += 1
    info = rec["info"]

    def ints(key):
        v = info.get(key)
        return None if v in (None, ["."]) else [int(x) for x in v]

    want = {"AN": [sum(counts)], "UAN": [sum(1 for c in counts if c > 0)], "NS": [sum(1 for g in gts if any(a is not None for a in g))]}
    if nalt:
        want["AC"] = counts[1:]
    for k, v in want.items():
        if ints(k) != v:
            r.violation("summary|%s|%s" % (cfg, k), "INFO/%s=%r, recomputed from the GT columns %r (%s)" % (k, info.get(k), v, tag), payload)
    if not nalt and info.get("AC") not in (None, ["."]):
        r.violation("summary|%s|AC" % cfg, "INFO/AC=%r on a record without ALT (%s)" % (info.get("AC"), tag), payload)
    # INFO/MCI: number of samples whose chains were flagged incongruent
    if "MCI" in info and all("MCI" in s for s in rec["samples"]):
        flagged = sum(1 for s in rec["samples"] if s["MCI"] not in (".", None) and float(s["MCI"]) > 0)
        if ints("MCI") != [flagged]:
            r.violation("summary|%s|MCI" % cfg, "INFO/MCI=%r, %d sample(s) have FORMAT/MCI > 0 (%s)" % (info.get("MCI"), flagged, tag), payload)
    # DP / RCOUNT from the sample columns
    sdp = [fnum(s.get("DP")) for s in rec["samples"]]
    src = [fnum(s.get("RCOUNT")) for s in rec["samples"]]
    if "RCOUNT" in info and ints("RCOUNT") != [int(np.nansum(src))]:
        r.violation("summary|%s|RCOUNT" % cfg, "INFO/RCOUNT=%r, sample RCOUNT sum %r (%s)" % (info.get("RCOUNT"), np.nansum(src), tag), payload)
    if "DP" in info:
        if info.get("NVAR") == ["0"]:
            if info["DP"] != ["."]:
                r.violation("summary|%s|DP" % cfg, "INFO/DP=%r for a locus without SNVs (%s)" % (info["DP"], tag), payload)
        elif ints("DP") != [int(np.nansum(sdp))]:
            r.violation("summary|%s|DP" % cfg, "INFO/DP=%r, sample DP sum %r (%s)" % (info.get("DP"), np.nansum(sdp), tag), payload)
    # posterior summaries from the (unrounded) internal sample values
    smp = cap["sample_all"]
    tot_ploidy = sum(cap["ploidy"].values())

    def vec(field):
        if field not in smp:
            return None
        arrs = [np.atleast_1d(np.asarray(smp[field][s], float)) for s in cap["samples"] if smp[field][s] is not None]
        return arrs if len(arrs) == len(cap["samples"]) else None

    def compare(key, wantv):
        got = info.get(key)
        if got is None:
            return
        if wantv is None or np.isnan(wantv).all():
            if not all(x == "." for x in got):
                r.violation("summary|%s|%s" % (cfg, key), "INFO/%s=%r but the sample values are missing (%s)" % (key, got, tag), payload)
            return
        gotv = np.array([fnum(x) for x in got])
        if len(gotv) != len(wantv) or np.nanmax(np.abs(gotv - wantv)) > 0.0005 + 1e-9:
            r.violation("summary|%s|%s" % (cfg, key), "INFO/%s=%r, recomputed from the sample columns %r (%s)" % (key, got, np.round(wantv, 4).tolist(), tag), payload)

    acp = vec("ACP")
    if acp is not None and all(len(a) == nalt + 1 for a in acp):
        compare("ACP", np.sum(acp, axis=0))
        compare("AFP", np.sum(acp, axis=0) / tot_ploidy)
    elif acp is not None:
        compare("ACP", None)
        compare("AFP", None)
    aop = vec("AOP")
    if aop is not None and all(len(a) == nalt + 1 for a in aop):
        compare("AOPSUM", np.sum(aop, axis=0))
        compare("AOP", 1 - np.prod([1 - a for a in aop], axis=0))
    elif aop is not None:
        compare("AOPSUM", None)
    elif aop is None:
        for key in ("AOPSUM", "AOP", "ACP", "AFP"):
            if key in info and info[key] != ["."] and not all(x == "." for x in info[key]) and vec({"AOPSUM": "AOP", "AOP": "AOP", "ACP": "ACP", "AFP": "ACP"}[key]) is None:
                r.violation("summary|%s|%s" % (cfg, key), "INFO/%s=%r although no per-sample values were computed (%s)" % (key, info[key], tag), payload)
    if "SNVDP" in info and "SNVDP" in smp:
        arrs = [np.atleast_1d(np.asarray(smp["SNVDP"][s], float)) for s in cap["samples"]]
        wantv = np.sum(arrs, axis=0)
        got = info["SNVDP"]
        if not (np.isnan(wantv).all() and got == ["."]):
            gotv = np.array([fnum(x) for x in got])
            if len(gotv) != len(wantv) or np.nanmax(np.abs(gotv - wantv)) > 1e-9:
                r.violation("summary|%s|SNVDP" % cfg, "INFO/SNVDP=%r, sample sum %r (%s)" % (got, wantv.tolist(), tag), payload)


def printed_ok(txt, val):
    if val is None:
        return txt == "."
    if isinstance(val, (bool, np.bool_)):
        return True
    v = float(val)
    if v != v:
        return txt == "."
    if txt == ".":
        return False
    try:
        t = float(txt)
    except ValueError:
        return False
    if "." in txt and len(txt.split(".")[1]) > 3 and "e" not in txt.lower():
        return False
    return abs(t - v) <= 0.0005 + 1e-9 * max(1.0, abs(v))


def check_rounding(r, payload, cfg, rec, cap, samples, hdr, tag):
    for key, val in cap["info"].items():
        if isinstance(val, (bool, np.bool_)):
            if bool(val) != (key in rec["info"]):
                r.violation("flag|%s|%s" % (cfg, key), "flag %s internal %s, printed %s (%s)" % (key, val, key in rec["info"], tag), payload)
            continue
        if key not in rec["info"]:
            r.violation("info-missing|%s|%s" % (cfg, key), "requested INFO/%s not printed (%s)" % (key, tag), payload)
            continue
        got = rec["info"][key]
        if isinstance(val, dict):
            vals = []
        else:
            vals = list(np.atleast_1d(np.asarray(val, dtype=object))) if not isinstance(val, str) else [val]
        if len(vals) == 0:
            if got != ["."]:
                r.violation("rounding|%s|INFO/%s" % (cfg, key), "internal value is empty, printed %r (%s)" % (got, tag), payload)
            continue
        if isinstance(vals[0], str):
            continue
        if len(got) != len(vals) or not all(printed_ok(t, v) for t, v in zip(got, vals)):
            r.violation("rounding|%s|INFO/%s" % (cfg, key), "printed %r, internal %r (%s)" % (got, [None if v is None else float(v) for v in vals], tag), payload)
    for si, s in enumerate(cap["samples"]):
        for key, per in cap["sample"].items():
            if key == "GT":
                want = "/".join(str(int(a)) if a >= 0 else "." for a in per[s])
                if rec["samples"][si].get("GT") != want:
                    r.violation("rounding|%s|GT" % cfg, "sample %s GT printed %r, internal %r (%s)" % (s, rec["samples"][si].get("GT"), want, tag), payload)
                continue
            val = per[s]
            got = rec["samples"][si].get(key)
            invalid = bool(set(rec["filter"].split(";")) & {"NOA", "AF0"})
            if key in ("AFP", "ACP", "AOP", "GP", "GL") and not invalid and (val is None or got in (None, ".")) and not (key == "GL" and got is not None):
                r.violation("format-not-computed|%s|%s" % (cfg, key), "FORMAT/%s was requested but sample %s has no value (%r) on a callable record (%s)" % (key, s, got, tag), payload)
                continue
            if got is None:
                r.violation("format-missing|%s|%s" % (cfg, key), "requested FORMAT/%s not printed for %s (%s)" % (key, s, tag), payload)
                continue
            vals = [] if val is None else list(np.atleast_1d(np.asarray(val, float)))
            toks = got.split(",")
            if len(vals) == 0:
                ok = got == "."
            else:
                ok = len(toks) == len(vals) and all(printed_ok(t, v) for t, v in zip(toks, vals))
            if not ok:
                r.violation("rounding|%s|FORMAT/%s" % (cfg, key), "sample %s printed %r, internal %r (%s)" % (s, got[:80], [round(float(v), 5) for v in vals][:12], tag), payload)
