"""C13  Haplotype reporting threshold and unknown-allele semantics in assemble."""
import itertools
import math

import numpy as np

from ..result import Result
from .. import refmodel as ref
from .. import env
from ..seams import patched

META = {
    "level": "exploration",
    "rule": "per-sample posterior = every distribution over the genotypes of a 4-haplotype universe (incl. the all-zero reference) with <= K supported genotypes "
    "and probabilities multiples of 1/D (dyadic, so >= at the boundary is exact); 1 sample (K=3, D=8) and 2 samples of different ploidy (K=2, D=4); thresholds "
    "{0,1/8,1/4,1/2,1}; call_posterior_haplotypes directly and the full assemble.program.call_sample_genotypes with DenovoMCMC replaced by a fake that "
    "realises the posterior exactly; non-trivial = >= 2 supported genotypes in some sample",
    "bound": {"quick": "P in {2,3}; single sample: all distributions (K<=3, eighths); two samples (ploidy 2 and 3): K<=2, quarters; program level on every 3rd / 7th case",
              "thorough": "program level on every case; two samples K<=2 eighths"},
    "assumptions": ["candidate universe = haplotypes with positive mass in some sample (0 >= 0 would otherwise list never-sampled haplotypes)",
                    "ties in ALT order / mode genotype: any consistent choice accepted"],
    "trusted_base": ["collections / fractions arithmetic on dyadic probabilities"],
}

H = [(0, 0), (0, 1), (1, 0), (1, 1)]
THRS = [0.0, 0.125, 0.25, 0.5, 1.0]


def dists(P, maxsup, den):
    G = ref.multisets(range(4), P)
    for k in range(1, maxsup + 1):
        for sup in itertools.combinations(range(len(G)), k):
            for comp in itertools.product(range(1, den + 1), repeat=k):
                if sum(comp) == den:
                    yield [(G[i], c / den) for i, c in zip(sup, comp)]


def warm(tier):
    env.quiet()
    import mchap.application.assemble  # noqa

    env.quiet()


def plan(tier, seed):
    jobs = []
    for P in (2, 3):
        n = sum(1 for _ in dists(P, 3, 8))
        nchunk = 4 if P == 2 else 32
        for ch in range(nchunk):
            jobs.append(("one", P, ch, nchunk, 1 if tier == "thorough" else (3 if P == 2 else 7), n // nchunk))
    den2 = 4 if tier == "quick" else 8
    for ch in range(48):
        jobs.append(("two", den2, ch, 48, 1 if tier == "thorough" else 11, 3000))
    jobs.append(("optwire", seed, 50000))
    jobs.sort(key=lambda j: -j[-1])
    return jobs


def run_job(job):
    env.quiet()
    return {"one": job_one, "two": job_two, "optwire": job_optwire}[job[0]](job)


def job_optwire(job):
    """--haplotype-posterior-threshold as typed on the command line is the threshold the program object holds (0 and 1 included)"""
    from .. import optwire, stddata
    from mchap.application import arguments as A
    import mchap.application.assemble as asm

    r = Result()
    payload = {"kind": "job", "job": job}
    D = stddata.Data(env.scratch_dir("c13o"))
    argv = D.assemble_args()
    optwire.check(r, payload, asm.program, argv, A.ASSEMBLE_MCMC_PARSER_ARGUMENTS, "assemble", only=("--haplotype-posterior-threshold",))
    for thr in THRS + [0.0, 0.2, 1.0]:
        obj = asm.program.cli(argv + ["--haplotype-posterior-threshold", repr(float(thr))])
        r.evaluations += 1
        r.nontrivial += 1
        if float(obj.haplotype_posterior_threshold) != float(thr):
            r.violation("option-threshold|thr=%g" % thr, "--haplotype-posterior-threshold %r gives a program with threshold %r" % (thr, obj.haplotype_posterior_threshold), payload)
    r.sample({"option": "--haplotype-posterior-threshold", "values": sorted(set(THRS + [0.0, 0.2, 1.0]))})
    return r


# --------------------------------------------------------------------------- reference
def occ(d, h):
    return sum(p for g, p in d if h in g)


def dos(d, h):
    return sum(p * g.count(h) for g, p in d)


def expected(ds, thr):
    """ds: list of per-sample distributions [(genotype, prob)].  Returns qualifying set, weights"""
    universe = {h for d in ds for g, p in d if p > 0 for h in g}
    Q = {h for h in universe if any(occ(d, h) >= thr and occ(d, h) > 0 for d in ds)}
    w = {h: sum(dos(d, h) for d in ds if occ(d, h) >= thr and occ(d, h) > 0) for h in Q}
    return Q, w


def interleave(g):
    """a storage order in which copies of the same haplotype are not adjacent where possible, e.g. (x, y, x)"""
    g = list(g)
    if len(g) >= 3 and g[0] == g[1] and g[1] != g[-1]:
        return [g[0], g[-1]] + g[1:-1]
    if len(g) >= 3 and g[-1] == g[-2] and g[0] != g[-1]:
        return [g[-1], g[0]] + g[1:-1]
    return g[::-1]


def mk_post(d, variant=0):
    from mchap.assemble.classes import PosteriorGenotypeDistribution

    gen = np.array([[H[a] for a in (g if variant == 0 else interleave(g))] for g, _ in d], np.int8)
    pr = np.array([p for _, p in d])
    o = np.flip(np.argsort(pr, kind="stable"))
    return PosteriorGenotypeDistribution(gen[o], pr[o])


def mode_candidates(d):
    """called genotype = best genotype of the most probable allele set (ties: all candidates)"""
    sup = {}
    for g, p in d:
        sup[frozenset(g)] = sup.get(frozenset(g), 0) + p
    best = max(sup.values())
    out = []
    for s_, v in sup.items():
        if v == best:
            top = max(p for g, p in d if frozenset(g) == s_)
            out += [g for g, p in d if frozenset(g) == s_ and p == top]
    return out


def check_fn(r, payload, ds, thr, tagp):
    from mchap.assemble import call_posterior_haplotypes

    Q, w = expected(ds, thr)
    haps, refc = call_posterior_haplotypes([mk_post(d) for d in ds], threshold=thr)
    # the posterior objects are multisets of haplotypes: the storage order of the rows of a genotype must not matter
    haps2, refc2 = call_posterior_haplotypes([mk_post(d, 1) for d in ds], threshold=thr)
    if sorted(map(tuple, haps2.tolist())) != sorted(map(tuple, haps.tolist())) or refc2 != refc:
        r.violation("fn-row-order|" + tagp, "called haplotypes depend on the storage order of the haplotypes inside a genotype: %r vs %r (thr=%g, posteriors=%s)" % (
            haps.tolist(), haps2.tolist(), thr, ds), payload)
    got = [H.index(tuple(int(x) for x in row)) for row in haps]
    tag = "%s|thr=%g|posteriors=%s" % (tagp, thr, ds)
    r.evaluations += 1
    ok = True
    if got[0] != 0:
        r.violation("fn-ref-first|" + tagp, "first haplotype is %r, not the reference (%s)" % (H[got[0]], tag), payload)
        ok = False
    if len(set(got)) != len(got):
        r.violation("fn-duplicate|" + tagp, "haplotype listed twice %r (%s)" % (got, tag), payload)
        ok = False
    if set(got[1:]) != Q - {0}:
        r.violation("fn-alt-set|%s|thr=%g" % (tagp, thr), "ALT haplotypes %r, haplotypes whose occurrence probability reaches the threshold in some sample %r (%s)" % (sorted(got[1:]), sorted(Q - {0}), tag), payload)
        ok = False
    if bool(refc) != (0 in Q):
        r.violation("fn-ref-called|%s|thr=%g" % (tagp, thr), "reference reported as called=%s, it meets the criterion=%s (%s)" % (refc, 0 in Q, tag), payload)
        ok = False
    if ok:
        ws = [w[h] for h in got[1:]]
        if any(ws[i] < ws[i + 1] - 1e-12 for i in range(len(ws) - 1)):
            r.violation("fn-alt-order|" + tagp, "ALT order %r has summed posterior dosages %r (not decreasing) (%s)" % (got[1:], ws, tag), payload)
    return got, refc


# --------------------------------------------------------------------------- program level
class FakeMCMC:
    """stands in for DenovoMCMC: fit() returns a trace realising the scripted posterior exactly"""

    script = {}

    def __init__(self, **kw):
        self.ploidy = kw["ploidy"]

    def fit(self, reads, read_counts=None):
        from mchap.assemble.classes import GenotypeMultiTrace

        d, den = FakeMCMC.script[self.ploidy]
        steps = []
        for g, p in d:
            steps += [[H[a] for a in g]] * int(round(p * den))
        arr = np.array(steps, np.int8).reshape(1, len(steps), self.ploidy, 2)
        return GenotypeMultiTrace(arr, np.zeros((1, len(steps))))


def locus2():
    from mchap.io.loci import Locus, SNP

    return Locus("chr1", 10, 14, "loc", "TATA", (SNP("chr1", 11, 12, ".", ("A", "C")), SNP("chr1", 13, 14, ".", ("A", "G"))))


def hap_string(h):
    return "T" + "AC"[h[0]] + "T" + "AG"[h[1]]


def check_prog(r, payload, ds, ploidies, thr, den, tagp):
    import mchap.application.assemble as asm
    import mchap.io.vcf.infofields as INFO
    import mchap.io.vcf.formatfields as FORMAT
    import mchap.io.vcf.columns as COLUMN

    samples = ["s%d" % i for i in range(len(ds))]
    FakeMCMC.script = {P: (d, den) for P, d in zip(ploidies, ds)}
    prog = asm.program(vcf="", ref="", samples=samples, sample_bams={s: [] for s in samples}, sample_ploidy=dict(zip(samples, ploidies)),
                       sample_inbreeding={s: 0.0 for s in samples}, info_fields=INFO.DEFAULT_FIELDS + INFO.OPTIONAL_FIELDS,
                       format_fields=FORMAT.DEFAULT_FIELDS + FORMAT.OPTIONAL_FIELDS, haplotype_posterior_threshold=thr, mcmc_burn=0,
                       sample_mcmc_temperatures={s: (1.0,) for s in samples})
    loc = locus2()
    data = prog._locus_data(loc, prog.sample_bams)
    for s in samples:
        data.read_calls[s] = np.zeros((0, 2), int)
        data.read_dists[s] = np.zeros((0, 2, 2))
        data.read_counts[s] = np.zeros(0, int)
    tag = "%s|thr=%g|posteriors=%s" % (tagp, thr, ds)
    try:
        with patched((asm, "DenovoMCMC", FakeMCMC)), env.app_warnings():
            env.dirty_heap()
            prog.call_sample_genotypes(data)
    except Exception as e:  # noqa
        from ..synth import root_cause

        e = root_cause(e)
        r.violation("prog-exception|%s|%s" % (tagp, type(e).__name__), "%s: %s (%s)" % (type(e).__name__, e, tag), payload)
        return
    env.quiet()
    r.evaluations += 1
    Q, w = expected(ds, thr)
    alts = list(data.columndata[COLUMN.ALT])
    strings = {hap_string(h): i for i, h in enumerate(H)}
    if data.columndata[COLUMN.REF] != hap_string(H[0]) or any(a not in strings for a in alts):
        r.violation("prog-alleles|" + tagp, "REF/ALT %r %r not among the haplotype strings (%s)" % (data.columndata[COLUMN.REF], alts, tag), payload)
        return
    listed = [0] + [strings[a] for a in alts]
    if set(listed[1:]) != Q - {0} or len(set(listed)) != len(listed):
        r.violation("prog-alt-set|%s|thr=%g" % (tagp, thr), "ALT %r, qualifying haplotypes %r (%s)" % (listed[1:], sorted(Q - {0}), tag), payload)
        return
    masked = bool(data.infodata[INFO.REFMASKED])
    if masked != (0 not in Q):
        r.violation("prog-refmasked|%s|thr=%g" % (tagp, thr), "REFMASKED=%s but the reference %s the criterion (%s)" % (masked, "meets" if 0 in Q else "fails", tag), payload)
    ws = [w[h] for h in listed[1:]]
    if any(ws[i] < ws[i + 1] - 1e-12 for i in range(len(ws) - 1)):
        r.violation("prog-alt-order|" + tagp, "ALT order %r has summed posterior dosages %r (%s)" % (listed[1:], ws, tag), payload)
    noa = "NOA" in data.columndata[COLUMN.FILTER]
    if noa != (masked and not alts):
        r.violation("prog-noa|" + tagp, "NOA filter %s with REFMASKED=%s and %d ALT (%s)" % (noa, masked, len(alts), tag), payload)
    number = {h: i for i, h in enumerate(listed) if not (h == 0 and masked)}
    n_all = len(listed)
    for s, P, d in zip(samples, ploidies, ds):
        gt = [int(x) for x in data.sampledata[FORMAT.GT][s]]
        cands = []
        for g in mode_candidates(d):
            al = sorted(number[h] for h in g if h in number)
            cands.append(al + [-1] * (P - len(al)))
        if gt not in cands:
            r.violation("prog-gt|%s|thr=%g" % (tagp, thr), "sample %s GT %r; called genotype candidates %r with excluded haplotypes shown as '.' give %r (REFMASKED=%s) (%s)" % (
                s, gt, mode_candidates(d), cands, masked, tag), payload)
        if masked and 0 in gt:
            r.violation("prog-gt-masked-ref|" + tagp, "sample %s GT %r uses allele 0 in a REFMASKED record (%s)" % (s, gt, tag), payload)
        afp = np.asarray(data.sampledata[FORMAT.AFP][s], float)
        aop = np.asarray(data.sampledata[FORMAT.AOP][s], float)
        acp = np.asarray(data.sampledata[FORMAT.ACP][s], float)
        wantf = [dos(d, h) / P for h in listed]
        wanto = [occ(d, h) for h in listed]
        if len(afp) != n_all or np.abs(afp - wantf).max() > 1e-12 or np.abs(aop - wanto).max() > 1e-12 or np.abs(acp - np.array(wantf) * P).max() > 1e-12:
            r.violation("prog-afp|" + tagp, "sample %s AFP/AOP/ACP %r/%r/%r, expected frequencies %r occurrences %r (%s)" % (s, afp.tolist(), aop.tolist(), acp.tolist(), wantf, wanto, tag), payload)
        if afp.sum() > 1 + 1e-12:
            r.violation("prog-afp-sum|" + tagp, "sample %s AFP sums to %.6g (%s)" % (s, afp.sum(), tag), payload)
        gp = np.asarray(data.sampledata[FORMAT.GP][s], float)
        G = ref.vcf_sorted_genotypes(n_all, P)
        want = np.zeros(len(G))
        for g, p in d:
            if all(h in number for h in g):
                want[G.index(tuple(sorted(number[h] for h in g)))] += p
        if len(gp) != len(G) or np.abs(gp - want).max() > 1e-12 or gp.sum() > 1 + 1e-12:
            r.violation("prog-gp|" + tagp, "sample %s GP %r (sum %.6g), expected %r over %d genotypes (%s)" % (s, gp.tolist(), gp.sum(), want.tolist(), len(G), tag), payload)
        r.outcome((tuple(listed), masked, tuple(gt)))


def job_one(job):
    _, P, ch, nchunk, stride, _ = job
    r = Result()
    payload = {"kind": "job", "job": job}
    for i, d in enumerate(dists(P, 3, 8)):
        if i % nchunk != ch:
            continue
        if len(d) >= 2:
            r.nontrivial += 1
        for thr in THRS:
            check_fn(r, payload, [d], thr, "one|P=%d" % P)
            if (i // nchunk) % stride == 0:
                check_prog(r, payload, [d], [P], thr, 8, "one|P=%d" % P)
        if not r.samples and len(d) == 3:
            r.sample({"ploidy": P, "posterior": [(list(g), p) for g, p in d], "thresholds": THRS})
    return r


def job_two(job):
    _, den, ch, nchunk, stride, _ = job
    r = Result()
    payload = {"kind": "job", "job": job}
    d2 = list(dists(2, 2, den))
    d3 = list(dists(3, 2, den))
    k = -1
    for a in d2:
        for b in d3:
            k += 1
            if k % nchunk != ch:
                continue
            r.nontrivial += 1
            for thr in THRS:
                check_fn(r, payload, [a, b], thr, "two|P=2,3")
                if (k // nchunk) % stride == 0:
                    check_prog(r, payload, [a, b], [2, 3], thr, den, "two|P=2,3")
    r.sample({"two_samples": "ploidy 2 and 3", "pairs": len(d2) * len(d3) // nchunk})
    return r
