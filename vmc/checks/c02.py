"""C02  `mchap call` sampler is stationary at the exact posterior.

Every sorted genotype, every distinct slot order, every slot: the Gibbs vector is compared with the
exact full conditional and the MH vector is checked for detailed balance (jitted functions, no seam
inside).  The compound step (random scan + choices + sort) is executed as py_func with the shuffle
and every choice owned, giving its exact transition matrix P; pi P = pi is checked."""
import itertools
import math

import numpy as np

from ..result import Result
from .. import refmodel as ref
from ..kcall import CallInstance, freq_options
from ..seams import Oracle, NumpyProxy, patched, unpatched, explore

META = {
    "level": "model_checking",
    "rule": "states = all sorted genotypes over H known haplotypes at ploidy P (each presented in every distinct slot order); "
    "transitions = (state, slot, allele) entries of the Gibbs/MH vectors and every (scan order, choice sequence) path of the "
    "compound step; non-trivial = ploidy >= 2 and positive posterior",
    "bound": {
        "quick": "H<=4, P<=4; freqs in {None, flat, skewed, zero-first, zero-last}; also haplotype lists holding one sequence twice (H in {3,4}); F in {0,1e-6,0.0005,0.004,0.2,0.7}; ploidy 12-13 with one likelihood cache shared over all states (H<=3); compound matrix for P<=3,H<=3 (+P=4,H=2)",
        "thorough": "H<=5, P<=6 (Gibbs/MH); compound matrix up to (H,P) = (5,4), (3,5), (2,6)",
    },
    "assumptions": [
        "Monte-Carlo error size between call and call-exact is not measured; stationarity + positive edges are",
        "tolerances: Gibbs 1e-9, MH flow 1e-8, each widened by 16-32 ulp x |lgamma((1-F)/F + P)| because the code evaluates the prior as a difference of log-gammas (4.7e-8 / 9.4e-8 at F = 1e-6)", "jitted mcmc_sampler traces are checked to follow positive-probability edges of the model matrix with exact llk",
    ],
    "trusted_base": ["vmc/refmodel.py posterior", "numba py_func == dispatcher source (compound_step)"],
}

FS = (0.0, 1e-6, 0.0005, 0.004, 0.2, 0.7)


def warm(tier):
    from mchap.calling.mcmc import gibbs_options, mh_options, mcmc_sampler

    for fname in ("none", "flat"):
        inst = CallInstance(3, 2, fname, 0.2)
        ll = np.zeros(3)
        g = np.array([0, 1])
        gibbs_options(g, 0, inst.haps, inst.R, inst.C, 0.2, ll, ll.copy(), ll.copy(), inst.farr, None)
        mh_options(g, 0, inst.haps, inst.R, inst.C, 0.2, ll, ll.copy(), ll.copy(), inst.farr, None)
        from mchap.calling.classes import CallingMCMC

        for stype in ("Gibbs", "Metropolis-Hastings"):
            CallingMCMC(ploidy=2, haplotypes=inst.haps, frequencies=inst.farr, inbreeding=0.2, steps=3, chains=1, random_seed=1, step_type=stype).fit(inst.R, inst.C, initial=g)



def setup_extra():
    from .. import cliflow

    for part in (("asm", 0), ("hand", 1)):
        cliflow.call_flow(Result(), {}, 0, part)


def plan(tier, seed):
    jobs = []
    maxH, maxP = (4, 4) if tier == "quick" else (5, 6)
    for H in range(1, maxH + 1):
        for P in range(1, maxP + 1):
            for fname, _ in freq_options(H):
                for F in FS:
                    jobs.append(("slot", H, P, fname, F, seed, math.comb(H + P - 1, P) * P * H))
    # haplotype lists that contain one sequence twice
    for H in (3, 4):
        for P in (2, 3):
            for fname in ("none+dup", "skew+dup", "zero-last+dup"):
                for F in (0.0, 0.2):
                    jobs.append(("slot", H, P, fname, F, seed, math.comb(H + P - 1, P) * P * H))
    for fname in ("skew+dup", "none+dup"):
        for F in (0.0, 0.3):
            for st in (0, 1):
                jobs.append(("compound", 3, 2, fname, F, st, seed, 2 * 9 * 6))
    cm = [(H, P) for H in (2, 3) for P in (1, 2, 3)] + [(2, 4)]
    if tier == "thorough":
        cm += [(3, 4), (4, 2), (4, 3), (4, 4), (5, 2), (5, 3), (5, 4), (3, 5), (2, 6), (2, 5)]
    else:
        cm += [(4, 2), (4, 3)]
    for H, P in cm:
        for fname, _ in freq_options(H):
            for F in (0.0, 0.3):
                for st in (0, 1):
                    jobs.append(("compound", H, P, fname, F, st, seed, math.factorial(P) * H**P * math.comb(H + P - 1, P)))
    for H, P in ((3, 2), (4, 3), (4, 4)):
        jobs.append(("reuse", H, P, seed, 5000))
    for H, P in ((2, 12), (3, 12), (2, 13), (3, 13)):
        for fname in ("none", "skew"):
            jobs.append(("slotcache", H, P, fname, 0.1, seed, math.comb(H + P - 1, P) * P * H * 4))
    for P in (2, 3):
        for fname in ("none", "skew"):
            for F in (0.0, 0.3):
                for st in (0, 1):
                    for readless in (False, True):
                        jobs.append(("sampler1", 3, P, fname, F, st, readless, seed, 4000))
    jobs.append(("orch", seed, 100))
    for part in (("asm", 0), ("asm", 1), ("hand", 0), ("hand", 1)):
        jobs.append(("cliflow", seed, part, 10 ** 7))
    jobs.sort(key=lambda j: -j[-1])
    return jobs


def run_job(job):
    return {"slot": job_slot, "compound": job_compound, "reuse": job_reuse, "orch": job_orch, "cliflow": job_cliflow, "slotcache": job_slotcache, "sampler1": job_sampler1}[job[0]](job)


def job_sampler1(job):
    """one whole step of mcmc_sampler (py_func, every seam owned, every answer sequence enumerated) from every start state gives the exact one-step
    transition matrix of the *sampler as a whole* - including whatever it does for a sample without reads; the reference posterior (the prior when
    there are no reads) must be stationary for it"""
    import mchap.calling.mcmc as cm

    _, H, P, fname, F, st, readless, seed, _ = job
    inst = CallInstance(H, P, fname, F, seed, read_variant=1)
    r = Result()
    payload = {"kind": "job", "job": job}
    tag = inst.name() + "|type=%d|%s" % (st, "no-reads" if readless else "reads")
    if readless:
        R = np.zeros((0,) + inst.R.shape[1:])
        C = np.zeros(0, np.int64)
        w = {g: inst.prior(g) for g in inst.gens}
        z = sum(w.values())
        post = {g: v / z for g, v in w.items()}
    else:
        R, C = inst.R, inst.C
        post = inst.post()
    idx = {g: i for i, g in enumerate(inst.gens)}
    n = len(inst.gens)
    M = np.zeros((n, n))
    real_g, real_m = cm.gibbs_options, cm.mh_options
    real_c = cm.compound_step.py_func  # the step itself runs as plain Python too (its seams are the ones owned here)

    def through(real):
        def f(*a, **kw):
            with unpatched():
                return real(*a, **kw)
        return f

    for g in inst.gens:
        r.states += 1
        if post[g] == 0:
            M[idx[g], idx[g]] = 1.0
            continue
        r.nontrivial += 1

        def run(o):
            with patched((cm, "np", NumpyProxy(o)), (cm, "random_choice", o.random_choice), (cm, "gibbs_options", through(real_g)), (cm, "mh_options", through(real_m)),
                         (cm, "compound_step", real_c)):
                gt, lt = cm.mcmc_sampler.py_func(genotype_alleles=np.array(g), haplotypes=inst.haps, reads=R, read_counts=C, inbreeding=F, frequencies=inst.farr,
                                                 n_steps=1, cache=False, step_type=st)
            return tuple(sorted(int(x) for x in np.asarray(gt)[0]))

        tot = 0.0
        for o, t in explore(run):
            r.evaluations += 1
            r.transitions += 1
            pr = o.probability()
            if pr is None or t not in idx:
                r.violation("sampler-step|%s|g=%s" % (tag, g), "one sampler step from %r ended in %r (path probability %r)" % (g, t, pr), payload)
                continue
            tot += pr
            M[idx[g], idx[t]] += pr
        if abs(tot - 1) > 1e-9:
            r.violation("sampler-row|%s|g=%s" % (tag, g), "path probabilities of one sampler step sum to %.12g" % tot, payload)
    pi = np.array([post[g] for g in inst.gens])
    out = pi @ M
    dev = float(np.abs(out - pi).max())
    r.maxi("sampler_stationarity_abs_dev", dev)
    if dev > 1e-9:
        k = int(np.abs(out - pi).argmax())
        r.violation("sampler-stationary|%s" % tag, "one step of the sampler does not leave the %s invariant: at genotype %s pi=%.12g (pi P)=%.12g" % (
            "prior (no reads)" if readless else "posterior", inst.gens[k], pi[k], out[k]), payload)
    r.outcome((tag, np.round(M, 9).tolist()))
    r.sample({"sampler_step_matrix": tag, "states": n}, cap=1)
    return r


def job_slotcache(job):
    """high ploidy (genotype indices beyond the binomial lookup table) with ONE likelihood cache shared by every state and slot, as the sampler shares it
    over a run: every Gibbs / MH vector must still be the exact conditional / satisfy detailed balance (a colliding or stale cache key shows here)"""
    import numba
    from mchap.calling.mcmc import gibbs_options, mh_options

    _, H, P, fname, F, seed, _ = job
    inst = CallInstance(H, P, fname, F, seed)
    post = inst.post()
    r = Result()
    payload = {"kind": "job", "job": job}
    tag = inst.name() + "|shared-cache"
    ll, lpv, pv, pv2 = np.zeros(H), np.zeros(H), np.zeros(H), np.zeros(H)
    cache = numba.typed.Dict.empty(numba.types.int64, numba.types.float64)
    cache[-1] = np.nan
    for rnd in range(2):  # second round: every entry is now served from the cache
        for g in inst.gens:
            if post[g] == 0:
                continue
            r.states += 1
            r.nontrivial += 1
            for perm in (g, tuple(reversed(g))):
                ga = np.array(perm)
                for k in range(P):
                    gibbs_options(ga, k, inst.haps, inst.R, inst.C, F, ll, lpv, pv, inst.farr, cache)
                    r.evaluations += 1
                    r.transitions += H
                    w = []
                    for a in range(H):
                        g2 = list(perm)
                        g2[k] = a
                        ms = tuple(sorted(g2))
                        w.append(post[ms] / ref.perms(ms))
                    z = sum(w)
                    w = [x / z for x in w]
                    dev = max(abs(pv[a] - w[a]) for a in range(H))
                    r.maxi("gibbs_shared_cache_abs_dev", dev)
                    if dev > 1e-9:
                        r.violation("gibbs-cache|%s|round=%d" % (tag, rnd), "state %r slot %d: Gibbs vector %r != exact full conditional %r" % (perm, k, pv.tolist(), w), payload)
                    for a in range(H):
                        g2 = list(perm)
                        g2[k] = a
                        if abs(ll[a] - inst.llk(g2)) > 1e-9 * max(1, abs(ll[a])):
                            r.violation("gibbs-cache-llk|%s|round=%d" % (tag, rnd), "state %r slot %d allele %d: likelihood %.12g, reference %.12g" % (perm, k, a, ll[a], inst.llk(g2)), payload)
                    mh_options(ga, k, inst.haps, inst.R, inst.C, F, ll, lpv, pv, inst.farr, cache)
                    cur = perm[k]
                    for a in range(H):
                        g2 = list(perm)
                        g2[k] = a
                        ms = tuple(sorted(g2))
                        if a == cur or post[ms] == 0:
                            continue
                        mh_options(np.array(g2), k, inst.haps, inst.R, inst.C, F, ll, lpv, pv2, inst.farr, cache)
                        f1 = post[g] / ref.perms(g) * pv[a]
                        f2 = post[ms] / ref.perms(ms) * pv2[cur]
                        d = abs(f1 - f2) / max(f1, f2) if max(f1, f2) > 0 else 0.0
                        if d > 1e-8:
                            r.violation("mh-cache-db|%s|round=%d" % (tag, rnd), "state %r slot %d -> allele %d: flow %.12g vs %.12g" % (perm, k, a, f1, f2), payload)
                    r.outcome((tag, perm, k, [round(float(x), 9) for x in pv]))
    r.sample({"instance": tag, "genotypes": len(inst.gens), "cache_entries": len(cache)}, cap=1)
    return r


def job_cliflow(job):
    """`mchap call` command line with per-sample parameter files -> CallingMCMC objects (vmc/cliflow.py)"""
    from .. import cliflow

    r = Result()
    cliflow.call_flow(r, {"kind": "job", "job": job}, job[1], tuple(job[2]))
    return r


def job_orch(job):
    """hand-off chain CallingMCMC.fit -> mcmc_sampler -> compound_step (vmc/handoff.py)"""
    from .. import handoff

    r = Result()
    payload = {"kind": "job", "job": job}
    handoff.call_fit(r, payload)
    handoff.call_sampler(r, payload)
    r.sample({"orchestration": "CallingMCMC.fit -> mcmc_sampler -> compound_step"}, cap=1)
    return r


def job_reuse(job):
    """a sampler object fitted to sample A and then to sample B must target B's posterior: same trace as a fresh object, B's own likelihoods"""
    from mchap.calling.classes import CallingMCMC

    _, H, P, seed, _ = job
    r = Result()
    payload = {"kind": "job", "job": job}
    for fname in ("none", "skew"):
        A = CallInstance(H, P, fname, 0.1, seed)
        B = CallInstance(H, P, fname, 0.1, seed + 1, read_variant=1)
        for stype in ("Gibbs", "Metropolis-Hastings"):
            kw = dict(ploidy=P, haplotypes=A.haps, frequencies=A.farr, inbreeding=0.1, steps=100, chains=2, random_seed=3, step_type=stype)
            fresh = CallingMCMC(**kw).fit(B.R, B.C)
            model = CallingMCMC(**kw)
            model.fit(A.R, A.C)
            again = model.fit(B.R, B.C)
            r.evaluations += 1
            r.nontrivial += 1
            r.states += 1
            r.transitions += 2
            tag = "H=%d|P=%d|freq=%s|%s" % (H, P, fname, stype)
            if not np.array_equal(fresh.genotypes, again.genotypes):
                r.violation("reuse-trace|" + tag, "fit(B) after fit(A) on one CallingMCMC object differs from fit(B) on a fresh object", payload)
            for c in range(again.genotypes.shape[0]):
                for i in range(again.genotypes.shape[1]):
                    want = B.llk(tuple(int(x) for x in again.genotypes[c, i]))
                    r.traces += 1
                    if abs(again.llks[c, i] - want) > 1e-9 * max(1, abs(want)):
                        r.violation("reuse-llk|" + tag, "after refitting, step %d carries llk %.12g; sample B's reads give %.12g" % (i, again.llks[c, i], want), payload)
                        break
            r.outcome((tag, again.genotypes[0, -1].tolist()))
    r.sample({"model_reuse": "CallingMCMC fit(A) then fit(B)", "H": H, "P": P})
    return r


def job_slot(job):
    from mchap.calling.mcmc import gibbs_options, mh_options

    _, H, P, fname, F, seed, _ = job
    inst = CallInstance(H, P, fname, F, seed)
    post = inst.post()
    r = Result()
    payload = {"kind": "job", "job": job}
    tag = inst.name()
    ll = np.zeros(H)
    lpv = np.zeros(H)
    pv = np.zeros(H)
    pv2 = np.zeros(H)
    A = range(H)
    # the MH ratio is a difference of log-gamma terms at dispersion (1-F)/F: for tiny F these are ~1e7 and cancel, costing ~1e-9 of relative accuracy
    mh_tol = 1e-8 + (0.0 if F <= 0 else 32 * 2.3e-16 * abs(math.lgamma((1 - F) / F + P)))
    gibbs_tol = 1e-9 + (0.0 if F <= 0 else 16 * 2.3e-16 * abs(math.lgamma((1 - F) / F + P)))
    for g in inst.gens:
        r.states += 1
        if post[g] == 0:
            continue  # unreachable (contains a zero-prior allele)
        if P >= 2:
            r.nontrivial += 1
        perms_ = sorted(set(itertools.permutations(g))) if P <= 4 else [g, tuple(reversed(g))]
        for perm in perms_:
            ga = np.array(perm)
            for k in range(P):
                # --- Gibbs: exact full conditional on ordered slots
                gibbs_options(ga, k, inst.haps, inst.R, inst.C, F, ll, lpv, pv, inst.farr, None)
                r.evaluations += 1
                r.transitions += H
                if ga.tolist() != list(perm):
                    r.violation("gibbs-restore|%s|g=%s|k=%d" % (tag, perm, k), "genotype not restored: %r" % (ga.tolist(),), payload)
                    ga = np.array(perm)
                w = []
                for a in A:
                    g2 = list(perm)
                    g2[k] = a
                    ms = tuple(sorted(g2))
                    w.append(post[ms] / ref.perms(ms))
                z = sum(w)
                w = [x / z for x in w]
                dev = max(abs(pv[a] - w[a]) for a in A)
                r.maxi("gibbs_abs_dev", dev)
                if dev > gibbs_tol or any((w[a] == 0) != (pv[a] == 0) for a in A):
                    r.violation("gibbs|%s|g=%s|k=%d" % (tag, perm, k),
                                "Gibbs vector %r != exact full conditional %r" % (pv.tolist(), w), payload)
                # each llks_array entry is the llk of that option
                for a in A:
                    g2 = list(perm)
                    g2[k] = a
                    if abs(ll[a] - inst.llk(g2)) > 1e-9 * max(1, abs(ll[a])):
                        r.violation("gibbs-llk|%s|g=%s|k=%d|a=%d" % (tag, perm, k, a), "llks_array[%d]=%.12g, reference %.12g" % (a, ll[a], inst.llk(g2)), payload)
                r.outcome((tag, [round(float(x), 10) for x in pv]))
                # --- MH: detailed balance on ordered slots
                mh_options(ga, k, inst.haps, inst.R, inst.C, F, ll, lpv, pv, inst.farr, None)
                r.evaluations += 1
                if abs(pv.sum() - 1) > 1e-9 or pv.min() < -1e-15:
                    r.violation("mh-row|%s|g=%s|k=%d" % (tag, perm, k), "MH vector is not a distribution: %r" % (pv.tolist(),), payload)
                cur = perm[k]
                for a in A:
                    if a == cur:
                        continue
                    g2 = list(perm)
                    g2[k] = a
                    ms = tuple(sorted(g2))
                    if post[ms] == 0:
                        if pv[a] != 0:
                            r.violation("mh-zero|%s|g=%s|k=%d|a=%d" % (tag, perm, k, a), "positive probability %g into a zero-prior genotype" % pv[a], payload)
                        continue
                    mh_options(np.array(g2), k, inst.haps, inst.R, inst.C, F, ll, lpv, pv2, inst.farr, None)
                    f1 = post[g] / ref.perms(g) * pv[a]
                    f2 = post[ms] / ref.perms(ms) * pv2[cur]
                    d = abs(f1 - f2) / max(f1, f2) if max(f1, f2) > 0 else 0.0
                    r.maxi("mh_db_rel_dev", d)
                    if d > mh_tol:
                        r.violation("mh-db|%s|g=%s|k=%d|a=%d" % (tag, perm, k, a),
                                    "detailed balance violated: flow %.12g vs %.12g" % (f1, f2), payload)
    r.sample({"instance": tag, "genotypes": len(inst.gens), "posterior_head": [(g, post[g]) for g in inst.gens[:3]]}, cap=1)
    return r


def job_compound(job):
    import mchap.calling.mcmc as cm

    _, H, P, fname, F, st, seed, _ = job
    inst = CallInstance(H, P, fname, F, seed, read_variant=1)
    post = inst.post()
    r = Result()
    payload = {"kind": "job", "job": job}
    tag = inst.name() + "|type=%d" % st
    idx = {g: i for i, g in enumerate(inst.gens)}
    n = len(inst.gens)
    M = np.zeros((n, n))
    visited = []
    real = cm.gibbs_options if st == 0 else cm.mh_options

    def rec(**kw):
        visited.append(int(kw["variable_allele"]))
        with unpatched():
            return real(**kw)

    for g in inst.gens:
        r.states += 1
        if post[g] == 0:
            M[idx[g], idx[g]] = 1.0
            continue
        if P >= 2:
            r.nontrivial += 1

        def run(o):
            visited.clear()
            ga = np.array(g)
            with patched((cm, "np", NumpyProxy(o)), (cm, "random_choice", o.random_choice),
                         (cm, "gibbs_options" if st == 0 else "mh_options", rec)):
                llk = cm.compound_step.py_func(ga, inst.haps, inst.R, inst.C, F, inst.farr, None, st)
            return ga, llk, list(visited)

        tot = 0.0
        for o, (ga, llk, vis) in explore(run):
            r.evaluations += 1
            r.transitions += 1
            pr = o.probability()
            tot += pr
            t = tuple(ga.tolist())
            if sorted(vis) != list(range(P)):
                r.violation("compound-scan|%s|g=%s" % (tag, g), "slots visited %r, expected each of 0..%d exactly once" % (vis, P - 1), payload)
            if list(t) != sorted(t):
                r.violation("compound-sort|%s|g=%s" % (tag, g), "result %r is not sorted" % (t,), payload)
                t = tuple(sorted(t))
            if abs(llk - inst.llk(t)) > 1e-9 * max(1, abs(llk)):
                r.violation("compound-llk|%s|g=%s|t=%s" % (tag, g, t), "returned llk %.12g, reference llk of the final genotype %.12g" % (llk, inst.llk(t)), payload)
            M[idx[g], idx[t]] += pr
        if abs(tot - 1) > 1e-9:
            r.violation("compound-row|%s|g=%s" % (tag, g), "path probabilities sum to %.12g" % tot, payload)
    pi = np.array([post[g] for g in inst.gens])
    out = pi @ M
    dev = float(np.abs(out - pi).max())
    r.maxi("stationarity_abs_dev", dev)
    if dev > 1e-9:
        k = int(np.abs(out - pi).argmax())
        r.violation("compound-stationary|%s" % tag, "pi P != pi: at genotype %s pi=%.12g (pi P)=%.12g" % (inst.gens[k], pi[k], out[k]), payload)
    r.outcome((tag, np.round(M, 9).tolist()))
    # conformance: the jitted sampler (through the public class) only walks positive edges, llk exact
    from mchap.calling.classes import CallingMCMC

    start = max(inst.gens, key=lambda g: post[g])
    model = CallingMCMC(ploidy=P, haplotypes=inst.haps, frequencies=inst.farr, inbreeding=F, steps=60, chains=2, random_seed=17 + seed,
                        step_type="Gibbs" if st == 0 else "Metropolis-Hastings")
    tr = model.fit(inst.R, inst.C, initial=np.array(start))
    for c in range(tr.genotypes.shape[0]):
        gt, lt = tr.genotypes[c], tr.llks[c]
        prev = start
        for i in range(len(gt)):
            t = tuple(int(x) for x in gt[i])
            r.traces += 1
            if t not in idx or M[idx[prev], idx[t]] <= 0:
                r.violation("compound-jit-edge|%s" % tag, "jitted sampler moved %s -> %s which has probability 0 in the model" % (prev, t), payload)
                break
            if abs(lt[i] - inst.llk(t)) > 1e-9 * max(1, abs(lt[i])):
                r.violation("compound-jit-llk|%s" % tag, "jitted trace llk %.12g for %s, reference %.12g" % (lt[i], t, inst.llk(t)), payload)
                break
            prev = t
    r.sample({"instance": tag, "compound_matrix_row0": M[0].round(6).tolist()}, cap=1)
    return r
