"""C18  Pedigree sampler moves are stationary at the joint pedigree posterior.

Every joint state of a family of small pedigrees x every individual x every allele slot: the jitted
Gibbs vector is compared with the exact full conditional of a brute-force reference joint, the MH
vector is checked for detailed balance, and the parental allele exchange (py_func, randint x2 and the
uniform owned) is checked for detailed balance and for its effect on the state."""
import itertools
import math

import numpy as np

from ..result import Result
from .. import refmodel as ref
from ..kped import Pedigree, shapes
from ..seams import Oracle, NumpyProxy, patched

META = {
    "level": "model_checking",
    "rule": "states = all joint genotype assignments of a pedigree (product of all unordered genotypes of every member); "
    "transitions = (state, target individual, slot order, slot, allele) entries of the Gibbs/MH vectors and (state, parental pair, "
    "slot_p, slot_q, decision) executions of the exchange step; non-trivial = pedigree with at least one known parent",
    "bound": {"quick": "20 pedigree shapes (founders, duos, trio, lambda, selfing x2, half-sibs, three generations, mixed ploidy, tau (1,2),(2,1),(1,3), "
                       "clonal (2,0),(0,2), unbalanced duo); 2-3 haplotypes; edge-specific error rates (seed-rotated)",
              "thorough": "adds 3 haplotypes on 5-member shapes, 4 haplotypes on diploid trios, second read profile"},
    "assumptions": ["reference joint = prod_i likelihood_i x brute-force inheritance pmf_i (vmc/refmodel)",
                    "the exchange step is extracted from its py_func; the compiled step is checked to land on a model edge"],
    "trusted_base": ["vmc/refmodel.trio_pmf, llk"],
}


def warm(tier):
    import mchap.pedigree.mcmc as pm

    ped = Pedigree("trio")
    st = next(iter(ped.states()))
    G = ped.genotype_array(st)
    ch = ped.children()
    args = common_args(ped, ch)
    pm.gibbs_probabilities(2, 0, G, *args[:6], *args[6:9], args[9], ped.new_cache(), *ped.scratch())
    pm.metropolis_hastings_probabilities(2, 0, G, *args[:6], *args[6:9], args[9], ped.new_cache(), *ped.scratch())
    pairs, blankets = pm.parental_pair_markov_blankets(ped.parents, ch)
    pm.pair_allele_swap_step(pairs[0, 0], pairs[0, 1], blankets[0], G.copy(), ped.ploidy, ped.parents, ped.tau, ped.lam, ped.err,
                             ped.read_dists, ped.read_counts, ped.haps, ped.logf, ped.new_cache(), *ped.scratch())


def common_args(ped, ch):
    # (ploidy, parents, children, tau, lambda, error, read_dists, read_counts, haplotypes, log_frequencies)
    return (ped.ploidy, ped.parents, ch, ped.tau, ped.lam, ped.err, ped.read_dists, ped.read_counts, ped.haps, ped.logf)



def setup_extra():
    from .. import cliflow, handoff

    handoff.ped_large_alleles(Result(), {})

    for part in (("asm", 0), ("hand", 1)):
        cliflow.pedigree_flow(Result(), {}, 0, part)


def plan(tier, seed):
    jobs = []
    for name in shapes():
        ped = Pedigree(name, seed)
        ns = ped.n_states()
        chunks = max(1, min(16, ns // 150))
        for c in range(chunks):
            jobs.append(("allele", name, None, seed, 0, c, chunks, ns * ped.n // chunks))
            jobs.append(("swap", name, None, seed, 0, c, chunks, ns * 4 // chunks))
    if tier == "thorough":
        for name, H in (("trio", 4), ("duo", 4), ("halfsibs", 3), ("threegen", 3), ("mixed_2_4_3", 3), ("tau_1_3", 3), ("trio4_lambda", 3), ("selfing4", 3)):
            ped = Pedigree(name, seed, H, 1)
            ns = ped.n_states()
            chunks = max(1, min(64, ns // 150))
            for c in range(chunks):
                jobs.append(("allele", name, H, seed, 1, c, chunks, ns * ped.n // chunks))
                jobs.append(("swap", name, H, seed, 1, c, chunks, ns * 4 // chunks))
    from ..handoff import PEDS

    for name in PEDS:
        for part in ("sampler", "compound", "allele"):
            jobs.append(("orch", part, name, 2000))
    jobs.append(("orch", "fit", "-", 100))
    for part in (("asm", 0), ("asm", 1), ("hand", 0), ("hand", 1)):
        jobs.append(("cliflow", seed, part, 10 ** 9))
    jobs.sort(key=lambda j: -j[-1])
    return jobs


def run_job(job):
    return {"allele": job_allele, "swap": job_swap, "orch": job_orch, "cliflow": job_cliflow}[job[0]](job)


def job_cliflow(job):
    """`mchap call-pedigree` command line with pedigree / gamete files -> PedigreeCallingMCMC arrays (vmc/cliflow.py)"""
    from .. import cliflow

    r = Result()
    cliflow.pedigree_flow(r, {"kind": "job", "job": job}, job[1], tuple(job[2]))
    return r


def job_orch(job):
    """hand-off chain fit -> mcmc_sampler -> compound_step -> sample_step -> allele_step -> kernel (vmc/handoff.py)"""
    from .. import handoff

    _, part, name, _ = job
    r = Result()
    payload = {"kind": "job", "job": job}
    if part == "fit":
        handoff.ped_fit(r, payload)
        handoff.ped_large_alleles(r, payload)
    else:
        {"sampler": handoff.ped_sampler, "compound": handoff.ped_compound, "allele": handoff.ped_allele}[part](r, payload, name)
    r.sample({"orchestration": part, "pedigree": name}, cap=1)
    return r


def job_allele(job):
    import mchap.pedigree.mcmc as pm

    _, name, H, seed, rp, c, chunks, _ = job
    ped = Pedigree(name, seed, H, rp)
    r = Result()
    payload = {"kind": "job", "job": job}
    ch = ped.children()
    a = common_args(ped, ch)
    sc = ped.scratch()
    cache = ped.new_cache()
    tag = "%s|H=%d|seed=%d" % (name, ped.H, seed)
    nontriv = bool((ped.parents >= 0).any())
    for si, state in enumerate(ped.states()):
        if si % chunks != c:
            continue
        lj = ped.log_joint(state)
        r.states += 1
        if lj == -math.inf:
            continue  # unreachable joint state (zero probability)
        if nontriv:
            r.nontrivial += 1
        for t in range(ped.n):
            g = state[t]
            P = len(g)
            orders = sorted(set(itertools.permutations(g))) if P <= 3 else [g, tuple(reversed(g)), g[1:] + g[:1]]
            for perm in orders:
                G = ped.genotype_array(state, {t: perm})
                for k in range(P):
                    # ---- reference conditional on ordered slots
                    w, lw = [], []
                    for al in ped.alleles:
                        g2 = list(perm)
                        g2[k] = al
                        ms = tuple(sorted(g2))
                        st2 = state[:t] + (ms,) + state[t + 1:]
                        l2 = ped.log_joint(st2)
                        lw.append(l2 - math.log(ref.perms(ms)) if l2 > -math.inf else -math.inf)
                    m = max(lw)
                    w = [math.exp(x - m) if x > -math.inf else 0.0 for x in lw]
                    z = sum(w)
                    w = [x / z for x in w]
                    pv = pm.gibbs_probabilities(t, k, G, a[0], a[1], a[2], a[3], a[4], a[5], a[6], a[7], a[8], a[9], cache, *sc)
                    r.evaluations += 1
                    r.transitions += ped.H
                    dev = max(abs(pv[x] - w[x]) for x in ped.alleles)
                    r.maxi("gibbs_abs_dev", dev)
                    if dev > 1e-9:
                        r.violation("gibbs|%s|state=%s|target=%d|order=%s|slot=%d" % (tag, state, t, perm, k),
                                    "Gibbs vector %r != exact full conditional of the joint %r" % ([round(float(x), 9) for x in pv], [round(x, 9) for x in w]), payload)
                    if G[t, :P].tolist() != list(perm):
                        r.violation("gibbs-restore|%s|state=%s|target=%d" % (tag, state, t), "genotype not restored", payload)
                        G = ped.genotype_array(state, {t: perm})
                    r.outcome((tag, t, [round(float(x), 8) for x in pv]))
                    # ---- MH detailed balance on ordered slots
                    pm_v = pm.metropolis_hastings_probabilities(t, k, G, a[0], a[1], a[2], a[3], a[4], a[5], a[6], a[7], a[8], a[9], cache, *sc)
                    r.evaluations += 1
                    if abs(pm_v.sum() - 1) > 1e-9 or pm_v.min() < -1e-15:
                        r.violation("mh-row|%s|state=%s|target=%d|slot=%d" % (tag, state, t, k), "MH vector is not a distribution %r" % (pm_v.tolist(),), payload)
                    cur = perm[k]
                    for al in ped.alleles:
                        if al == cur:
                            continue
                        g2 = list(perm)
                        g2[k] = al
                        if lw[al] == -math.inf:
                            if pm_v[al] > 0:
                                r.violation("mh-zero|%s|state=%s|target=%d|slot=%d|a=%d" % (tag, state, t, k, al), "positive probability %g into a zero-probability joint state" % pm_v[al], payload)
                            continue
                        G2 = ped.genotype_array(state, {t: tuple(g2)})
                        back = pm.metropolis_hastings_probabilities(t, k, G2, a[0], a[1], a[2], a[3], a[4], a[5], a[6], a[7], a[8], a[9], cache, *sc)
                        if pm_v[al] <= 0 or back[cur] <= 0:
                            if (pm_v[al] > 0) != (back[cur] > 0):
                                r.violation("mh-db|%s|state=%s|target=%d|slot=%d|a=%d" % (tag, state, t, k, al), "one-way edge %g / %g" % (pm_v[al], back[cur]), payload)
                            continue
                        lf = lw[cur] + math.log(pm_v[al])
                        lb = lw[al] + math.log(back[cur])
                        r.maxi("mh_db_log_dev", abs(lf - lb))
                        if abs(lf - lb) > 1e-8:
                            r.violation("mh-db|%s|state=%s|target=%d|order=%s|slot=%d|a=%d" % (tag, state, t, perm, k, al),
                                        "detailed balance violated: log flows %.12g vs %.12g" % (lf, lb), payload)
    bad = ped.check_cache(cache)
    for (s, g, v, fresh) in bad[:5]:
        r.violation("cache|%s|sample=%d|g=%s" % (tag, s, g), "cached likelihood %.12g != likelihood on the sample's own reads %.12g" % (v, fresh), payload)
    r.sample({"pedigree": name, "members": ped.n, "ploidy": ped.ploidy.tolist(), "tau": ped.tau.tolist(), "joint_states": ped.n_states(), "error": ped.err.tolist()}, cap=1)
    return r


def job_swap(job):
    import mchap.pedigree.mcmc as pm

    _, name, H, seed, rp, c, chunks, _ = job
    ped = Pedigree(name, seed, H, rp)
    r = Result()
    payload = {"kind": "job", "job": job}
    ch = ped.children()
    pairs, blankets = pm.parental_pair_markov_blankets(ped.parents, ch)
    tag = "%s|H=%d|seed=%d" % (name, ped.H, seed)
    # reference pairs / blankets
    want_pairs = {}
    for i in range(ped.n):
        p, q = sorted(int(x) for x in ped.parents[i])
        if p >= 0 and q >= 0 and (p, q) not in want_pairs:
            bl = {p, q} | {j for j in range(ped.n) if p in ped.parents[j] or q in ped.parents[j]}
            want_pairs[(p, q)] = sorted(bl)
    got_pairs = {(int(pairs[i, 0]), int(pairs[i, 1])): sorted(int(x) for x in blankets[i] if x >= 0) for i in range(len(pairs))}
    if c == 0:
        r.evaluations += 1
        if got_pairs != want_pairs:
            r.violation("pairs|%s" % tag, "parental pairs / Markov blankets %r, expected %r" % (got_pairs, want_pairs), payload)
    if not len(pairs):
        r.note("shape %s has no parental pair" % name)
        return r
    sc = ped.scratch()
    cache = ped.new_cache()

    def run(G, pi, ip, iq, uval):
        o = Oracle([ip, iq, 0], rand_values=(uval,))
        with patched((pm, "np", NumpyProxy(o))):
            out = pm.pair_allele_swap_step.py_func(int(pairs[pi, 0]), int(pairs[pi, 1]), blankets[pi], G, ped.ploidy, ped.parents, ped.tau, ped.lam,
                                                   ped.err, ped.read_dists, ped.read_counts, ped.haps, ped.logf, cache, *sc)
        kinds = [e[0] for e in o.log]
        return out, kinds

    for si, state in enumerate(ped.states()):
        if si % chunks != c:
            continue
        lj = ped.log_joint(state)
        r.states += 1
        if lj == -math.inf:
            continue
        r.nontrivial += 1
        for pi in range(len(pairs)):
            p, q = int(pairs[pi, 0]), int(pairs[pi, 1])
            if p == q:
                continue  # selfing pair: exchange within one genotype never changes the unordered state
            gp, gq = state[p], state[q]
            accs = set()
            succ = {state}
            for ip in range(len(gp)):
                for iq in range(len(gq)):
                    ap, aq = gp[ip], gq[iq]
                    G = ped.genotype_array(state)
                    G0 = G.copy()
                    (A, acc), kinds = run(G, pi, ip, iq, 0.0)
                    r.evaluations += 1
                    r.transitions += 1
                    if ap == aq:
                        if not (A != A) or acc or not np.array_equal(G, G0):
                            r.violation("swap-equal|%s|state=%s|pair=%s|slots=%s" % (tag, state, (p, q), (ip, iq)), "equal alleles must leave the state untouched", payload)
                        continue
                    if kinds[:2] != ["randint", "randint"]:
                        r.violation("swap-seam|%s" % tag, "unexpected random draws %r" % (kinds,), payload)
                    # expected successor
                    g2p = tuple(sorted(gp[:ip] + (aq,) + gp[ip + 1:]))
                    g2q = tuple(sorted(gq[:iq] + (ap,) + gq[iq + 1:]))
                    st2 = tuple(g2p if i == p else g2q if i == q else state[i] for i in range(ped.n))
                    lj2 = ped.log_joint(st2)
                    accs.add(round(float(A), 12))
                    # reference acceptance
                    cp, cq = gp.count(ap), gq.count(aq)
                    cp2, cq2 = g2p.count(aq), g2q.count(ap)
                    if lj2 == -math.inf:
                        want = 0.0
                    else:
                        want = min(1.0, math.exp(lj2 - lj) * (cp2 * cq2) / (cp * cq))
                    r.maxi("swap_acceptance_dev", abs(A - want))
                    if abs(A - want) > 1e-9:
                        r.violation("swap-acc|%s|state=%s|pair=%s|slots=%s" % (tag, state, (p, q), (ip, iq)),
                                    "acceptance %.12g, detailed balance w.r.t. the joint requires %.12g" % (A, want), payload)
                    # decisions: uniform below / above the acceptance probability
                    for uval, expect in ((want / 2.0, True), ((1.0 + want) / 2.0, False)):
                        if (expect and want <= 0) or (not expect and want >= 1):
                            continue
                        G = ped.genotype_array(state)
                        (A2, acc2), _ = run(G, pi, ip, iq, uval)
                        r.evaluations += 1
                        got_state = tuple(tuple(sorted(int(x) for x in G[i, : ped.ploidy[i]])) for i in range(ped.n))
                        if bool(acc2) != expect or got_state != (st2 if expect else state):
                            r.violation("swap-effect|%s|state=%s|pair=%s|slots=%s|accept=%s" % (tag, state, (p, q), (ip, iq), expect),
                                        "decision %s, state after %r, expected %r" % (acc2, got_state, st2 if expect else state), payload)
                        if expect:
                            succ.add(st2)
                    r.outcome((tag, round(float(A), 9)))
            # compiled step lands on a model edge
            from mchap.jitutils import seed_numba

            seed_numba(1000 + si)
            G = ped.genotype_array(state)
            A, acc = pm.pair_allele_swap_step(p, q, blankets[pi], G, ped.ploidy, ped.parents, ped.tau, ped.lam, ped.err, ped.read_dists,
                                              ped.read_counts, ped.haps, ped.logf, cache, *sc)
            got_state = tuple(tuple(sorted(int(x) for x in G[i, : ped.ploidy[i]])) for i in range(ped.n))
            r.traces += 1
            if got_state not in succ or not (A != A or round(float(A), 12) in accs):
                r.violation("swap-jit|%s|state=%s|pair=%s" % (tag, state, (p, q)), "compiled exchange step moved to %r with acceptance %r, not an edge of the model" % (got_state, A), payload)
    bad = ped.check_cache(cache)
    for (s, g, v, fresh) in bad[:5]:
        r.violation("cache|%s|sample=%d|g=%s" % (tag, s, g), "after the exchange steps the cache holds %.12g for this genotype, likelihood on the sample's own reads is %.12g" % (v, fresh), payload)
    r.sample({"pedigree": name, "parental_pairs": sorted(got_pairs), "blankets": got_pairs and list(got_pairs.values())[0]}, cap=1)
    return r
