"""C14  Posterior summaries are exact functionals of the retained trace (all small traces, all burn-ins)."""
import itertools
from collections import Counter

import numpy as np

from ..result import Result
from .. import refmodel as ref

META = {
    "level": "exploration",
    "rule": "all traces (chains x steps) over all genotypes of a small universe, every burn-in 0..steps-1, presented in every / several "
    "within-genotype storage orders; each summary is compared with the same functional of a collections.Counter over sorted tuples; "
    "non-trivial = >= 2 retained steps with >= 2 distinct genotypes",
    "bound": {"quick": "calling: alleles {0,1,2}, P in {2,3}, (chains,steps) in {(1,<=4),(2,2)}; assemble: 2 bi-allelic SNVs P=2 (all 16 ordered genotypes), "
                       "(1,<=3),(2,2); P=3 over 3 haplotypes (1,<=4),(2,2); pedigree individual() on padded mixed-ploidy traces",
              "thorough": "adds (2,3) traces (calling, triploid assemble), (1,4) for the 16 ordered diploid genotypes, multisets of 5..11 steps"},
    "assumptions": ["calling traces are stored sorted by the samplers (posterior()/mode() are given sorted storage); posterior_frequencies and every assemble summary "
                    "are exercised with unsorted storage", "exact ties: any maximiser / any consistent incongruence flag is accepted"],
    "trusted_base": ["collections.Counter"],
}


def warm(tier):
    from mchap.calling.classes import GenotypeAllelesMultiTrace
    from mchap.assemble.classes import GenotypeMultiTrace

    t = GenotypeAllelesMultiTrace(np.array([[[0, 1], [1, 1]]]), np.zeros((1, 2)), 3)
    t.posterior().as_array(3)
    t.posterior_frequencies()
    t.replicate_incongruence(0.6)
    GenotypeMultiTrace(np.array([[[[0, 1], [1, 1]], [[0, 1], [0, 1]]]], np.int8), np.zeros((1, 2))).posterior()


def plan(tier, seed):
    shapes = [(1, 1), (1, 2), (1, 3), (1, 4), (2, 2)] + ([(2, 3)] if tier == "thorough" else [])
    jobs = []
    for P in (2, 3):
        for sh in shapes:
            n = len(ref.multisets(range(3), P)) ** (sh[0] * sh[1])
            chunks = max(1, min(32, n // 3000))
            for c in range(chunks):
                jobs.append(("call", P, sh, c, chunks, n // chunks))
        # three and four chains: the copy-number flag is a property of *all* qualifying chains together, not of neighbouring pairs
        for sh in [(3, 1), (4, 1)] + ([(3, 2)] if P == 2 else []):
            n = len(ref.multisets(range(3), P)) ** (sh[0] * sh[1])
            chunks = max(1, min(32, n // 3000))
            for c in range(chunks):
                jobs.append(("call", P, sh, c, chunks, n // chunks))
    for sh in [(1, 1), (1, 2), (1, 3), (2, 2)] + ([(1, 4)] if tier == "thorough" else []):
        n = 16 ** (sh[0] * sh[1])
        chunks = max(1, min(48, n // 1500))
        for c in range(chunks):
            jobs.append(("asm2", sh, c, chunks, 4 * n // chunks))
    for sh in shapes:
        n = 10 ** (sh[0] * sh[1])
        chunks = max(1, min(32, n // 1500))
        for c in range(chunks):
            jobs.append(("asm3", sh, c, chunks, 4 * n // chunks))
    for sh in [(1, 1), (1, 2), (1, 3), (2, 2)]:
        n = 10 ** (sh[0] * sh[1])
        chunks = max(1, min(16, n // 1500))
        for c in range(chunks):
            jobs.append(("asm1", sh, c, chunks, 3 * n // chunks))
    for N in ((6, 9) if tier == "quick" else range(5, 12)):
        for c in range(16):
            jobs.append(("multiset", N, c, 16, 3000 * N))
    jobs.append(("ped", seed, 2000))
    jobs.sort(key=lambda j: -j[-1])
    return jobs


def run_job(job):
    return {"call": job_call, "asm1": job_asm1, "asm2": job_asm2, "asm3": job_asm3, "ped": job_ped, "multiset": job_multiset}[job[0]](job)


# --------------------------------------------------------------------------- reference functionals
def counter_of(chains, burn):
    c = Counter()
    for ch in chains:
        for g in ch[burn:]:
            c[g] += 1
    return c


def support_table(c):
    sup = Counter()
    for g, n in c.items():
        sup[frozenset(g)] += n
    return sup


def incongruence_options(chains, burn, threshold, ploidy):
    """Set of flags consistent with the documented meaning (0 none / 1 incongruent posterior modes / 2 putative CNV = more distinct
    alleles than the ploidy).  Chains qualify when their mode-support probability >= threshold.  Ties between per-chain mode supports or
    mode genotypes: any choice.  Same allele set but different mode dosage is left open ({0,1}): the two trace classes differ there and
    the documentation does not decide it."""
    per_chain = []
    for ch in chains:
        c = counter_of([ch], burn)
        tot = sum(c.values())
        sup = support_table(c)
        best = max(sup.values())
        opts = []
        for s_, n in sup.items():
            if n != best:
                continue
            top = max(m for g, m in c.items() if frozenset(g) == s_)
            for g, m in c.items():
                if frozenset(g) == s_ and m == top:
                    opts.append((s_, g, best / tot))
        per_chain.append(opts)
    out = set()
    for choice in itertools.product(*per_chain):
        sel = [(s_, g) for s_, g, p in choice if p >= threshold]
        if len(sel) < 2:
            out.add(0)
            continue
        sups = {s_ for s_, g in sel}
        if len(sups) == 1:
            if len({g for s_, g in sel}) == 1:
                out.add(0)
            else:
                out.update((0, 1))
        else:
            union = set().union(*sups)
            out.add(2 if len(union) > ploidy else 1)
    return out


# --------------------------------------------------------------------------- calling traces
def job_call(job):
    from mchap.calling.classes import GenotypeAllelesMultiTrace
    from mchap.jitutils import genotype_alleles_as_index

    _, P, (chains, steps), chunk, nchunks, _ = job
    r = Result()
    payload = {"kind": "job", "job": job}
    A = [0, 1, 2]
    gens = ref.multisets(A, P)
    order = sorted(gens, key=lambda g: g[::-1])
    perms = {g: sorted(set(itertools.permutations(g))) for g in gens}
    for ti, tr in enumerate(itertools.product(gens, repeat=chains * steps)):
        if ti % nchunks != chunk:
            continue
        ch = [tr[c * steps:(c + 1) * steps] for c in range(chains)]
        arr = np.array(tr, np.int64).reshape(chains, steps, P)
        for burn in range(steps):
            c = counter_of(ch, burn)
            tot = sum(c.values())
            r.evaluations += 1
            if tot >= 2 and len(c) >= 2:
                r.nontrivial += 1
            tag = "calling|P=%d|trace=%s|burn=%d" % (P, [list(x) for x in ch], burn)
            t = GenotypeAllelesMultiTrace(arr.copy(), np.zeros((chains, steps)), 3).burn(burn)
            if t.genotypes.shape[1] != steps - burn:
                r.violation("call-burn|P=%d" % P, "burn(%d) left %d of %d steps (%s)" % (burn, t.genotypes.shape[1], steps, tag), payload)
                continue
            post = t.posterior()
            got = {tuple(int(x) for x in g): float(p) for g, p in zip(post.genotypes, post.probabilities)}
            if set(got) != set(c) or any(abs(got[g] - c[g] / tot) > 1e-12 for g in c):
                r.violation("call-posterior|P=%d" % P, "posterior %r, relative frequencies %r (%s)" % (got, {g: n / tot for g, n in c.items()}, tag), payload)
                continue
            mg, mp = post.mode()
            if abs(mp - max(c.values()) / tot) > 1e-12 or abs(c[tuple(int(x) for x in mg)] / tot - mp) > 1e-12:
                r.violation("call-mode|P=%d" % P, "mode %r with %.6g (%s)" % (mg.tolist(), mp, tag), payload)
            sup = support_table(c)
            best = max(sup.values())
            m = post.mode(genotype_support=True)
            ms = frozenset(int(x) for x in m[0])
            if sup[ms] != best or abs(m[2] - best / tot) > 1e-12:
                r.violation("call-mode-support|P=%d" % P, "support of %r has probability %.6g, reported %.6g; most probable allele set has %.6g (%s)" % (m[0].tolist(), sup[ms] / tot, m[2], best / tot, tag), payload)
            else:
                within = max(n for g, n in c.items() if frozenset(g) == ms)
                if abs(m[1] - within / tot) > 1e-12 or c[tuple(int(x) for x in m[0])] != within:
                    r.violation("call-mode-support-genotype|P=%d" % P, "best genotype of the mode support: %r with %.6g, expected probability %.6g (%s)" % (m[0].tolist(), m[1], within / tot, tag), payload)
            gp = post.as_array(3)
            want = np.zeros(len(order))
            for g, n in c.items():
                want[order.index(g)] = n / tot
            if len(gp) != len(order) or np.abs(gp - want).max() > 1e-12:
                r.violation("call-as-array|P=%d" % P, "G-ordered array %r, expected %r (%s)" % (gp.tolist(), want.tolist(), tag), payload)
            for g in c:
                if genotype_alleles_as_index(np.array(g)) != order.index(g):
                    r.violation("call-index|P=%d" % P, "index of %r" % (g,), payload)
            rc = [sum(n * g.count(a) for g, n in c.items()) / tot for a in A]
            ro = [sum(n for g, n in c.items() if a in g) / tot for a in A]
            # allele frequencies for several storage orders of the same trace
            variants = [arr]
            if burn == 0:
                variants.append(arr[..., ::-1].copy())
                variants.append(np.roll(arr, 1, axis=-1))
                if chains * steps <= 2:
                    for combo in itertools.product(*[perms[g] for g in tr]):
                        variants.append(np.array(combo, np.int64).reshape(chains, steps, P))
            for v in variants:
                f, cnt, occ = GenotypeAllelesMultiTrace(v.copy(), np.zeros((chains, steps)), 3).burn(burn).posterior_frequencies()
                r.evaluations += 1
                if np.abs(cnt - rc).max() > 1e-12 or np.abs(occ - ro).max() > 1e-12 or np.abs(f - np.array(rc) / P).max() > 1e-12:
                    r.violation("call-frequencies|P=%d" % P, "storage %r: freq/count/occurrence %r/%r/%r, expected counts %r occurrence %r (%s)" % (
                        v.tolist(), f.tolist(), cnt.tolist(), occ.tolist(), rc, ro, tag), payload)
                    break
            if chains > 1:
                for thr in (0.5, 0.6, 1.0):
                    flag = t.replicate_incongruence(thr)
                    opts = incongruence_options(ch, burn, thr, P)
                    if flag not in opts:
                        r.violation("call-incongruence|P=%d|threshold=%g" % (P, thr), "flag %d, definition allows %r (%s)" % (flag, sorted(opts), tag), payload)
                    flag_rev = GenotypeAllelesMultiTrace(arr[::-1].copy(), np.zeros((chains, steps)), 3).burn(burn).replicate_incongruence(thr)
                    if flag_rev != flag and len(opts) == 1:
                        r.violation("call-incongruence-chain-order|P=%d" % P, "flag %d, with the chains in reverse order %d (%s)" % (flag, flag_rev, tag), payload)
            r.outcome((P, sorted(c.items()), burn))
        if not r.samples and chains == 2:
            r.sample({"calling_trace": [list(map(list, x)) for x in ch], "posterior_burn0": {str(g): n for g, n in counter_of(ch, 0).items()}})
    return r


# --------------------------------------------------------------------------- assemble traces
def check_asm_trace(r, payload, haps, ch_idx, P, tagp, storage_variants):
    """ch_idx: per chain list of genotypes as tuples of haplotype indices *as stored* (possibly unsorted)"""
    from mchap.assemble.classes import GenotypeMultiTrace

    chains, steps = len(ch_idx), len(ch_idx[0])
    canon = [[tuple(sorted(g)) for g in ch] for ch in ch_idx]
    for burn in range(steps):
        c = counter_of(canon, burn)
        tot = sum(c.values())
        r.evaluations += 1
        if tot >= 2 and len(c) >= 2:
            r.nontrivial += 1
        tag = "%s|trace=%s|burn=%d" % (tagp, [list(x) for x in ch_idx], burn)
        results = []
        for arr in storage_variants:
            t = GenotypeMultiTrace(arr.copy(), np.zeros((chains, steps))).burn(burn)
            post = t.posterior()

            def key(g):
                return tuple(sorted(haps.index(tuple(int(x) for x in row)) for row in g))

            got = Counter()
            for g, p in zip(post.genotypes, post.probabilities):
                got[key(g)] += float(p)
            if len(post.genotypes) != len(c) or set(got) != set(c) or any(abs(got[g] - c[g] / tot) > 1e-12 for g in c):
                r.violation("asm-posterior|" + tagp, "posterior %r (from %d states), relative frequencies %r (%s)" % (dict(got), len(post.genotypes), {g: n / tot for g, n in c.items()}, tag), payload)
                return
            mg, mp = post.mode()
            if abs(mp - max(c.values()) / tot) > 1e-12 or c[key(mg)] != max(c.values()):
                r.violation("asm-mode|" + tagp, "mode %r with %.6g (%s)" % (mg.tolist(), mp, tag), payload)
            sup = support_table(c)
            best = max(sup.values())
            sd = post.mode_genotype_support()
            members = {key(g): float(p) for g, p in zip(sd.genotypes, sd.probabilities)}
            sset = {frozenset(g) for g in members}
            if len(sset) != 1:
                r.violation("asm-mode-support|" + tagp, "support distribution mixes allele sets %r (%s)" % (sset, tag), payload)
            else:
                s0 = next(iter(sset))
                want_members = {g: n / tot for g, n in c.items() if frozenset(g) == s0}
                if sup[s0] != best or set(members) != set(want_members) or any(abs(members[g] - want_members[g]) > 1e-12 for g in members):
                    r.violation("asm-mode-support|" + tagp, "mode support %r with members %r; most probable allele set has probability %.6g, this one %.6g (%s)" % (
                        sorted(s0), members, best / tot, sup[s0] / tot, tag), payload)
                bg, bp = sd.mode_genotype()
                if abs(bp - max(want_members.values())) > 1e-12:
                    r.violation("asm-mode-support-genotype|" + tagp, "best genotype of the support %r %.6g (%s)" % (bg.tolist(), bp, tag), payload)
            for dosage in (False, True):
                uh, fr, oc = post.allele_frequencies(dosage=dosage)
                gotf = {haps.index(tuple(int(x) for x in h)): (float(f), float(o)) for h, f, o in zip(uh, fr, oc)}
                wantf = {}
                for h in set(x for g in c for x in g):
                    d = sum(n * g.count(h) for g, n in c.items()) / tot
                    wantf[h] = (d if dosage else d / P, sum(n for g, n in c.items() if h in g) / tot)
                if set(gotf) != set(wantf) or any(abs(gotf[h][0] - wantf[h][0]) > 1e-12 or abs(gotf[h][1] - wantf[h][1]) > 1e-12 for h in wantf):
                    r.violation("asm-frequencies|" + tagp, "allele_frequencies(dosage=%s) %r, expected %r (%s)" % (dosage, gotf, wantf, tag), payload)
            if chains > 1:
                for thr in (0.5, 0.6, 1.0):
                    flag = t.replicate_incongruence(thr)
                    opts = incongruence_options(canon, burn, thr, P)
                    results.append((thr, flag))
                    if flag not in opts:
                        if flag == 2 and opts <= {0, 1} and 1 in opts:
                            # the specific, listed defect: 2 ("putative CNV") although the chains' mode supports hold <= ploidy distinct haplotypes
                            r.violation("asm-incongruence-cnv-flag-with-alleles<=ploidy|%s" % tagp,
                                        "replicate_incongruence(%g) = 2 but the chains' mode supports contain no more distinct haplotypes than the ploidy; definition allows %r (%s)" % (thr, sorted(opts), tag), payload)
                        else:
                            r.violation("asm-incongruence|%s|threshold=%g" % (tagp, thr), "flag %d, definition (0 none / 1 different mode supports / 2 more alleles than the ploidy) allows %r (%s)" % (flag, sorted(opts), tag), payload)
        r.outcome((tagp, sorted(c.items()), burn))


def job_asm2(job):
    _, (chains, steps), chunk, nchunks, _ = job
    r = Result()
    payload = {"kind": "job", "job": job}
    haps = [(0, 0), (0, 1), (1, 0), (1, 1)]
    P = 2
    gens = list(itertools.product(range(4), repeat=P))  # ordered: every row order of every step
    for ti, tr in enumerate(itertools.product(gens, repeat=chains * steps)):
        if ti % nchunks != chunk:
            continue
        ch = [tr[c * steps:(c + 1) * steps] for c in range(chains)]
        arr = np.array([[haps[a] for a in g] for g in tr], np.int8).reshape(chains, steps, P, 2)
        check_asm_trace(r, payload, haps, ch, P, "assemble|P=2", [arr])
        if not r.samples and chains == 2:
            r.sample({"assemble_trace_haplotype_indices": [list(map(list, x)) for x in ch]})
    return r


def job_asm1(job):
    """loci with a single SNV (trace arrays with one column): the canonical sort of each stored genotype must still happen"""
    _, (chains, steps), chunk, nchunks, _ = job
    r = Result()
    payload = {"kind": "job", "job": job}
    haps = [(0,), (1,), (2,)]
    for P in (2, 3):
        gens = list(itertools.product(range(3), repeat=P)) if P == 2 else ref.multisets(range(3), P)
        for ti, tr in enumerate(itertools.product(gens, repeat=chains * steps)):
            if ti % nchunks != chunk:
                continue
            ch = [tr[c * steps:(c + 1) * steps] for c in range(chains)]
            arr = np.array([[haps[a] for a in g] for g in tr], np.int8).reshape(chains, steps, P, 1)
            variants = [arr] if P == 2 else [arr, arr[:, :, ::-1].copy(), np.roll(arr, 1, axis=2)]
            check_asm_trace(r, payload, haps, ch, P, "assemble|P=%d" % P, variants)  # (single-SNV haplotypes)
    return r


def job_asm3(job):
    _, (chains, steps), chunk, nchunks, _ = job
    r = Result()
    payload = {"kind": "job", "job": job}
    haps = [(0, 0), (0, 1), (1, 1)]
    P = 3
    gens = ref.multisets(range(3), P)
    for ti, tr in enumerate(itertools.product(gens, repeat=chains * steps)):
        if ti % nchunks != chunk:
            continue
        ch = [tr[c * steps:(c + 1) * steps] for c in range(chains)]
        arr = np.array([[haps[a] for a in g] for g in tr], np.int8).reshape(chains, steps, P, 2)
        variants = [arr, arr[:, :, ::-1].copy(), np.roll(arr, 1, axis=2)]
        check_asm_trace(r, payload, haps, ch, P, "assemble|P=3", variants)
    return r


def compositions(n, k):
    if k == 1:
        yield (n,)
        return
    for i in range(n + 1):
        for rest in compositions(n - i, k - 1):
            yield (i,) + rest


def job_multiset(job):
    """the summaries are functionals of the multiset of retained genotypes: enumerate every count vector of N steps over the
    10 triploid genotypes (single chain), stored in sorted and in interleaved order"""
    from mchap.calling.classes import GenotypeAllelesMultiTrace

    _, N, chunk, nchunks, _ = job
    r = Result()
    payload = {"kind": "job", "job": job}
    haps = [(0, 0), (0, 1), (1, 1)]
    P = 3
    gens = ref.multisets(range(3), P)
    for ci, comp in enumerate(compositions(N, len(gens))):
        if ci % nchunks != chunk:
            continue
        if sum(1 for x in comp if x) < 2:
            continue
        seq = [g for g, n in zip(gens, comp) for _ in range(n)]
        seq = seq[::2] + seq[1::2]  # interleave
        ch = [tuple(seq)]
        arr = np.array([[haps[a] for a in g] for g in seq], np.int8).reshape(1, N, P, 2)
        check_asm_trace(r, payload, haps, ch, P, "assemble|P=3|multiset", [arr])
        # calling class on the same multiset
        c = counter_of(ch, 0)
        tot = N
        t = GenotypeAllelesMultiTrace(np.array(seq, np.int64).reshape(1, N, P), np.zeros((1, N)), 3)
        post = t.posterior()
        sup = support_table(c)
        best = max(sup.values())
        m = post.mode(genotype_support=True)
        ms = frozenset(int(x) for x in m[0])
        r.evaluations += 1
        if sup[ms] != best or abs(m[2] - best / tot) > 1e-12:
            r.violation("call-mode-support|P=3|multiset", "support of %r has probability %.6g, reported %.6g; most probable allele set has %.6g (counts %r)" % (
                m[0].tolist(), sup[ms] / tot, m[2], best / tot, dict(c)), payload)
        else:
            within = max(n for g, n in c.items() if frozenset(g) == ms)
            if abs(m[1] - within / tot) > 1e-12:
                r.violation("call-mode-support-genotype|P=3|multiset", "best genotype of the mode support %r %.6g, expected %.6g" % (m[0].tolist(), m[1], within / tot), payload)
    r.sample({"multiset_traces": "all count vectors of %d steps over the 10 triploid genotypes" % N}, cap=1)
    return r


def job_ped(job):
    from mchap.pedigree.classes import PedigreeAllelesMultiTrace

    r = Result()
    payload = {"kind": "job", "job": job}
    ploidies = [2, 4, 3]
    maxp = 4
    pools = [ref.multisets(range(3), p)[:: (2 if p > 2 else 1)] for p in ploidies]
    combos = list(itertools.product(*[range(min(len(p), 4)) for p in pools]))
    for chains, steps in ((1, 2), (2, 2), (1, 3), (3, 1), (4, 2)):
        stride = 7 if chains * steps <= 4 else 100003
        for tr in itertools.islice(itertools.product(combos, repeat=chains * steps), 0, 20000 * stride // 7, stride):
            arr = np.full((chains, steps, 3, maxp), -1, np.int16)
            for k, st in enumerate(tr):
                c, s = divmod(k, steps)
                for i, gi in enumerate(st):
                    g = pools[i][gi]
                    arr[c, s, i, : len(g)] = g
            t = PedigreeAllelesMultiTrace(arr, n_allele=3)
            for burn in range(steps):
                tb = t.burn(burn)
                for i in range(3):
                    ind = tb.individual(i)
                    r.evaluations += 1
                    r.nontrivial += 1
                    if ind.genotypes.shape != (chains, steps - burn, ploidies[i]):
                        r.violation("ped-individual-shape|i=%d" % i, "individual(%d) has shape %r for ploidy %d" % (i, ind.genotypes.shape, ploidies[i]), payload)
                        continue
                    c = Counter()
                    for k, st in enumerate(tr):
                        cc, s = divmod(k, steps)
                        if s >= burn:
                            c[pools[i][st[i]]] += 1
                    tot = sum(c.values())
                    post = ind.posterior()
                    got = {tuple(int(x) for x in g): float(p) for g, p in zip(post.genotypes, post.probabilities)}
                    if set(got) != set(c) or any(abs(got[g] - c[g] / tot) > 1e-12 for g in c):
                        r.violation("ped-individual-posterior|i=%d" % i, "posterior %r, expected %r" % (got, {g: n / tot for g, n in c.items()}), payload)
                    f, cnt, occ = ind.posterior_frequencies()
                    rc = [sum(n * g.count(a) for g, n in c.items()) / tot for a in range(3)]
                    if np.abs(cnt - rc).max() > 1e-12:
                        r.violation("ped-individual-frequencies|i=%d" % i, "counts %r expected %r" % (cnt.tolist(), rc), payload)
                    # every chain of the individual's trace takes part in the chain-level summaries (more chains than retained steps included)
                    if chains > 1:
                        chs = [[pools[i][tr[cc * steps + s_][i]] for s_ in range(steps)] for cc in range(chains)]
                        for thr in (0.5, 1.0):
                            flag = ind.replicate_incongruence(thr)
                            opts = incongruence_options(chs, burn, thr, ploidies[i])
                            if flag not in opts:
                                r.violation("ped-individual-incongruence|i=%d|threshold=%g" % (i, thr), "flag %d, definition allows %r (chains %r, burn %d)" % (flag, sorted(opts), chs, burn), payload)
            r.outcome(tr)
    r.sample({"pedigree_traces": "padded (2,4,3)-ploid", "cases": r.evaluations})
    return r
