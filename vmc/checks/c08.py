"""C08  Determinism: records depend only on inputs and seed, not on cores / order / history.

1. sched   : every interleaving of main / workers / writer of the real `_run_stdout_multi_core`
             (virtual multiprocessing, explicit-state search), with a failing locus at every position.
2. split   : np.array_split block partition for all (n_loci, n_cores).
3. hist    : every operation history (fits of other models, RNG draws, re-seeding) before a fit.
4. order   : every ordered subset of the loci, in-process, for assemble / call / call-exact.
5. cli     : real subprocess runs (the model traces replayed on real multiprocessing)."""
import itertools
import os
import subprocess
import sys

import numpy as np

from ..result import Result
from .. import env
from ..sched import Sched, Deadlock, virtual_mp, Out, state_key

CLI_TIMEOUT = 300  # a run takes 5-20 s; a multi-core run that deadlocks is killed (whole process group) after this long

META = {
    "level": "model_checking",
    "rule": "sched: states = canonical (per-task step count + values read + exception, queue contents, stdout so far) of the real runner under "
    "the cooperative scheduler, transitions = one scheduling step of one enabled task; hist: all operation sequences up to the depth; "
    "order: all ordered subsets of the loci; non-trivial = at least two tasks enabled at some point / non-empty history / >= 2 loci",
    "bound": {"quick": "sched: loci 1..4 x cores 2..3 (+5x2, 2x4), no failure and a failure at every position; hist depth 2 (8-op alphabet, seeds {0,7}); "
                       "order: all 64 ordered subsets of 4 loci x 3 programs x seeds {0,42}; 15 real CLI runs (assemble x cores {1,2,3,6} and reversed BED, two worker-failure runs, and 8 runs of assemble / call / call-exact / call-pedigree in processes with PYTHONHASHSEED 1..3, the pedigree holding 4 BAM-less members)",
              "thorough": "sched up to 8 loci x 2 cores, 6 x 3, 5 x 4, 3 x 5; hist depth 3; 20 CLI runs incl. call / call-exact"},
    "assumptions": ["OS scheduling, pickling of the program into workers and pipe-level atomicity of sys.stdout.write are not owned; every interleaving "
                    "of the operations the code performs on shared objects is",
                    "tasks are deterministic given what they read, so equal canonical keys have equal futures"],
    "trusted_base": ["vmc/sched.py (baton scheduler)", "python threading"],
}

SCHED_QUICK = [(1, 2), (2, 2), (3, 2), (4, 2), (5, 2), (1, 3), (2, 3), (3, 3), (4, 3), (2, 4)]
SCHED_THOROUGH = SCHED_QUICK + [(3, 4), (4, 4), (5, 3), (5, 4), (6, 2), (6, 3), (7, 2), (3, 5), (8, 2)]


def warm(tier):
    env.quiet()
    import mchap.application.baseclass  # noqa
    from mchap.assemble import DenovoMCMC
    from mchap.calling.classes import CallingMCMC
    from mchap.pedigree.classes import PedigreeCallingMCMC  # noqa

    env.quiet()
    ops, _ = history_ops(7)
    for k in ("fitA", "fitB", "callA", "callMH", "pedA"):
        ops[k]()
    # compile the application pipelines once (assemble, call, call-exact)
    from .. import stddata

    d = env.scratch_dir("c08warm")
    D = stddata.Data(d)
    o = stddata.run(D.assemble_args(bed=D.bed_subset(["L1", "L2"], "w.bed")))
    hv = D.save_vcf(o, "w.vcf")
    stddata.run(D.call_args("call", hv))
    stddata.run(D.call_args("call-exact", hv))
    env.quiet()


def plan(tier, seed):
    jobs = []
    for (nl, nc) in (SCHED_QUICK if tier == "quick" else SCHED_THOROUGH):
        for fail in [None] + list(range(nl)):
            jobs.append(("sched", nl, nc, fail, 4 ** nl * nc * 30))
    jobs.append(("split", 0, 50))
    depth = 2 if tier == "quick" else 3
    ops, _ = history_ops(7)
    for s in (0, 7):
        for first in sorted(ops):
            jobs.append(("hist", s, first, depth, 3000 * 9 ** (depth - 1)))
    for prog in ("assemble", "call", "call-exact"):
        for s in (0, 42):
            for ch in range(4):
                jobs.append(("order", prog, s, ch, 4, 60000))
    cli = [("assemble", 1, "id"), ("assemble", 2, "id"), ("assemble", 3, "id"), ("assemble", 2, "rev"), ("assemble", 6, "id"),
           ("assemble", 2, "fail"), ("assemble", 1, "fail"),
           # separate processes with different string-hash seeds (set / dict iteration order must not reach the output)
           ("call-pedigree", 1, "hash1"), ("call-pedigree", 1, "hash2"), ("call-pedigree", 2, "hash3"), ("assemble", 1, "hash2"),
           ("call", 1, "hash1"), ("call", 2, "hash2"), ("call-exact", 1, "hash1"), ("call-exact", 2, "hash2")]
    if tier == "thorough":
        cli += [("call", 1, "id"), ("call", 3, "id"), ("call-exact", 1, "id"), ("call-exact", 2, "id"), ("assemble", 3, "fail")]
    jobs.append(("cli", tuple(cli), seed, 10 ** 7))
    for prog in ("assemble", "call", "call-exact", "call-pedigree"):
        jobs.append(("heap", prog, seed, 50000))
    jobs.append(("ids", seed, 40000))
    jobs.sort(key=lambda j: -j[-1])
    return jobs


def run_job(job):
    env.quiet()
    return {"sched": job_sched, "split": job_split, "hist": job_hist, "order": job_order, "cli": job_cli, "heap": job_heap, "ids": job_ids}[job[0]](job)


def job_ids(job):
    """a target is its interval, not its free-text name: targets that share a name (two amplicons of one gene), in any order and with 1 or 2 cores,
    each give exactly the record they give under unique names"""
    from .. import stddata, synth

    r = Result()
    payload = {"kind": "job", "job": job}
    D = stddata.Data(env.scratch_dir("c08i"))
    names = ["L1", "L5", "L3", "L7", "L4"]
    rows = [[l for l in stddata.LOCI if l[3] == n][0] for n in names]
    base = stddata.records(stddata.run(D.assemble_args(bed=D.bed_subset(names, "u.bed"))))
    env.quiet()
    want = {l.split("\t")[1]: l.split("\t")[:2] + l.split("\t")[3:] for l in base}
    shared = {"L1": "geneA", "L5": "geneA", "L3": "geneB", "L7": "geneB", "L4": "geneA"}
    for order_name, order in (("file-order", rows), ("reversed", rows[::-1])):
        bed = synth.write_bed(D.dir, [(c, s_, e, shared[n]) for (c, s_, e, n) in order], "dup_%s.bed" % order_name)
        for cores in (1, 2):
            r.evaluations += 1
            r.nontrivial += 1
            try:
                out = stddata.records(stddata.run(D.assemble_args(bed=bed, extra=["--cores", str(cores)]))) if cores == 1 else None
            except Exception as e:  # noqa
                e = synth.root_cause(e)
                r.violation("ids-exception|%s" % type(e).__name__, "%s: %s (targets sharing a name, %s)" % (type(e).__name__, e, order_name), payload)
                env.quiet()
                continue
            env.quiet()
            if out is None:
                continue  # the multi-core path reads the same loci() generator; it is exercised by the cli job
            got = {l.split("\t")[1]: l.split("\t")[:2] + l.split("\t")[3:] for l in out}
            if len(out) != len(rows) or got != want:
                r.violation("ids-shared-name|%s" % order_name, "targets sharing a name: %d records for %d targets; positions %r, expected %r (records must equal those under unique names apart from the ID column)" % (
                    len(out), len(rows), sorted(got), sorted(want)), payload)
            r.outcome((order_name, cores, len(out)))
    r.sample({"targets_sharing_a_name": shared}, cap=1)
    return r


def job_heap(job):
    """the records of one run, every optional field reported, must not depend on what the process' allocator holds from earlier work: the same program is run
    after the small-block caches were filled with three different garbage patterns (an output array allocated without initialisation shows here)"""
    from .. import stddata
    import mchap.io.vcf.infofields as INFO
    import mchap.io.vcf.formatfields as FORMAT

    _, prog, seed, _ = job
    r = Result()
    payload = {"kind": "job", "job": job}
    D = stddata.Data(env.scratch_dir("c08h"))
    report = ["FORMAT/" + f.id for f in FORMAT.OPTIONAL_FIELDS] + ["INFO/" + f.id for f in INFO.OPTIONAL_FIELDS]
    if prog == "assemble":
        argv = D.assemble_args(report=report, extra=["--mcmc-seed", "3"])
    else:
        hv = D.save_vcf(stddata.run(D.assemble_args()), "in.vcf")
        argv = D.call_args(prog, hv, report=report, extra=(["--mcmc-seed", "3"] if prog != "call-exact" else []) + (D.pedigree_files() if prog == "call-pedigree" else []))
    outs = []
    real_dirty = env.dirty_heap
    for value in (0.4375, 0.8125, 0.0):
        env.dirty_heap = (lambda v=value: real_dirty(v))  # stddata.run() poisons the heap right before the program starts
        try:
            outs.append(stddata.records(stddata.run(argv)))
        finally:
            env.dirty_heap = real_dirty
        env.quiet()
        r.evaluations += 1
        r.nontrivial += 1
    for k in (1, 2):
        if outs[k] != outs[0]:
            i = next((i for i, (a, b) in enumerate(zip(outs[0], outs[k])) if a != b), min(len(outs[0]), len(outs[k])))
            a, b = outs[0][i].split("\t"), outs[k][i].split("\t")
            cols = [j for j, (x, y) in enumerate(zip(a, b)) if x != y]
            r.violation("heap-history|%s" % prog, "record %d differs between two runs of the same command in one process (columns %r): %r vs %r" % (
                i, cols, [a[j][:80] for j in cols[:2]], [b[j][:80] for j in cols[:2]]), payload)
            break
    r.outcome((prog, len(outs[0])))
    r.sample({"allocator_history": "3 garbage patterns", "program": prog, "report": "all optional fields"}, cap=1)
    return r


# --------------------------------------------------------------------------- 1. schedules and faults
def make_program(nloci, ncores, fail):
    import mchap.application.baseclass as bc

    class P(bc.program):
        def header(self):
            return ["##h1", "#CHROM"]

        def loci(self):
            return iter(self._loci)

        def call_locus(self, locus, sample_bams):
            if locus.name == self._fail:
                raise RuntimeError("boom at " + locus.name)
            return "REC_%s\tpayload-%s" % (locus.name, locus.name * 3)

    class L:
        def __init__(self, i):
            self.name = "loc%d" % i
            self.contig = "c"
            self.start = i
            self.stop = i + 1

    p = P(vcf="", ref="", samples=[], sample_bams={}, sample_ploidy={}, sample_inbreeding={}, info_fields=[], format_fields=[], n_cores=ncores)
    p._loci = [L(i) for i in range(nloci)]
    p._fail = None if fail is None else "loc%d" % fail
    return p


def run_sched(choices, nloci, ncores, fail, stop_after=None):
    import mchap.application.baseclass as bc

    s = Sched(choices)
    p = make_program(nloci, ncores, fail)
    out = Out(s)
    old_mp, old_out = bc.mp, sys.stdout
    bc.mp = virtual_mp(s)
    sys.stdout = out
    try:
        main = s.run(p._run_stdout_multi_core, stop_after)
    finally:
        sys.stdout = old_out
        bc.mp = old_mp
    return s, main, out


def check_terminal(r, nloci, fail, main, out, trace, tag, payload_base):
    text = "".join(x for _, x in out.chunks)
    lines = text.split("\n")
    payload = dict(payload_base, choices=trace)
    want = ["REC_loc%d\tpayload-%s" % (i, ("loc%d" % i) * 3) for i in range(nloci)]
    if lines[:2] != ["##h1", "#CHROM"]:
        r.violation("sched-header|" + tag, "header is not first: %r" % (lines[:3],), payload)
    body = [l for l in lines[2:] if l != ""]
    # every record line is written by the writer task only, as one intact write of line + newline
    for who, x in out.chunks:
        if x.startswith("REC_") and (who != "T0" or not x.endswith("\n") or x.count("\n") != 1):
            r.violation("sched-intact|" + tag, "record chunk %r written by %s" % (x, who), payload)
    if fail is None:
        if main.exc is not None:
            r.violation("sched-exit|" + tag, "main task raised %r on the success path" % (main.exc,), payload)
        if sorted(body) != sorted(want):
            r.violation("sched-lines|" + tag, "output lines %r, expected each of %d records exactly once" % (body, nloci), payload)
    else:
        if main.exc is None:
            r.violation("sched-silent-failure|" + tag, "locus loc%d failed but the main task finished without an exception (exit status 0); lines written: %r" % (fail, body), payload)
        if len(set(body)) != len(body) or any(b not in want for b in body) or ("REC_loc%d" % fail) in text:
            r.violation("sched-lines|" + tag, "malformed / duplicated lines on the failure path: %r" % (body,), payload)
    return tuple(body), type(main.exc).__name__ if main.exc else None


def job_sched(job):
    import collections

    _, nloci, ncores, fail, _ = job
    r = Result()
    tag = "loci=%d|cores=%d|fail=%s" % (nloci, ncores, fail)
    payload_base = {"kind": "sched", "nloci": nloci, "ncores": ncores, "fail": fail}
    seen = set()
    frontier = collections.deque([[]])
    outcomes = set()
    max_enabled = 0
    n_final = 0
    while frontier:
        pref = frontier.popleft()
        try:
            s, main, out = run_sched(pref, nloci, ncores, fail, stop_after=len(pref))
        except Deadlock as d:
            r.violation("sched-deadlock|" + tag, "no task enabled after %r" % (d.args[0],), dict(payload_base, choices=pref))
            continue
        r.evaluations += 1
        if s.final:
            n_final += 1
            outcomes.add(check_terminal(r, nloci, fail, main, out, pref, tag, payload_base))
            continue
        max_enabled = max(max_enabled, s.n_enabled_at_stop)
        if s.n_enabled_at_stop == 0:
            r.violation("sched-deadlock|" + tag, "no task can take a step after the schedule %r: the run never finishes" % (s.trace,), dict(payload_base, choices=pref))
            continue
        for alt in range(s.n_enabled_at_stop):
            try:
                s2, main2, out2 = run_sched(pref + [alt], nloci, ncores, fail, stop_after=len(pref) + 1)
            except Deadlock as d:
                r.violation("sched-deadlock|" + tag, "no task enabled after %r" % (d.args[0],), dict(payload_base, choices=pref + [alt]))
                continue
            r.transitions += 1
            k = state_key(s2, out2)
            if k not in seen:
                seen.add(k)
                frontier.append(pref + [alt])
    r.states += len(seen)
    if max_enabled >= 2:
        r.nontrivial += len(seen)
    for o in outcomes:
        r.outcome((tag, o))
    r.count("sched_distinct_terminal_outcomes", len(outcomes))
    r.count("sched_terminal_states_checked", n_final)
    if n_final == 0:
        r.violation("sched-vacuous|" + tag, "exploration reached no terminal state", payload_base)
    r.sample({"schedule_exploration": tag, "states": len(seen), "terminal_outcomes": len(outcomes), "max_enabled_tasks": max_enabled,
              "example_outcome": list(sorted(outcomes)[0]) if outcomes else None}, cap=1)
    return r


def replay(payload):
    from ..run import _generic_replay

    if payload.get("kind") == "sched":
        r = Result()
        try:
            s, main, out = run_sched(payload["choices"], payload["nloci"], payload["ncores"], payload["fail"])
        except Deadlock as d:
            r.violation("sched-deadlock", "no task enabled after %r" % (d.args[0],), payload)
            return r
        r.evaluations += 1
        check_terminal(r, payload["nloci"], payload["fail"], main, out, payload["choices"],
                       "loci=%d|cores=%d|fail=%s" % (payload["nloci"], payload["ncores"], payload["fail"]), payload)
        return r
    return _generic_replay(sys.modules[__name__], payload)


# --------------------------------------------------------------------------- 2. block split
def job_split(job):
    r = Result()
    payload = {"kind": "job", "job": job}
    for nl in range(0, 9):
        for nc in range(1, 10):
            loci = ["L%d" % i for i in range(nl)]
            blocks = np.array_split(loci, nc)
            flat = [x for b in blocks for x in b.tolist()]
            r.evaluations += 1
            r.nontrivial += 1
            if flat != loci or len(blocks) != nc:
                r.violation("split|loci=%d|cores=%d" % (nl, nc), "blocks %r do not partition the loci in order" % ([b.tolist() for b in blocks],), payload)
            r.outcome(tuple(len(b) for b in blocks))
    r.sample({"array_split": "all n_loci<=8 x n_cores<=9"})
    return r


# --------------------------------------------------------------------------- 3. histories
def history_ops(seed):
    import numba
    from mchap.assemble import DenovoMCMC
    from mchap.calling.classes import CallingMCMC
    from mchap.pedigree.classes import PedigreeCallingMCMC
    from mchap.jitutils import seed_numba

    e = 0.02

    def rd(h):
        return [[1 - e if a == x else e for a in range(2)] for x in h]

    RA = np.array([rd([0, 1, 0]), rd([1, 1, 0]), rd([0, 0, 1])])
    CA = np.array([2, 1, 3])
    RB = np.array([rd([1, 1, 1]), rd([0, 1, 1])])
    CB = np.array([4, 1])
    haps = np.array([[0, 0, 0], [0, 1, 0], [1, 1, 0], [0, 0, 1]])
    global _nbdraw
    if "_nbdraw" not in globals() or _nbdraw is None:
        @numba.njit
        def nbdraw():
            return np.random.random()

        _nbdraw = nbdraw

    def fitA():
        t = DenovoMCMC(ploidy=4, n_alleles=[2, 2, 2], steps=60, chains=2, random_seed=seed, temperatures=(0.5, 1.0), llk_cache_threshold=0, fix_homozygous=2.0).fit(RA, CA)
        return t.genotypes.tobytes() + t.llks.tobytes()

    def fitB():
        t = DenovoMCMC(ploidy=2, n_alleles=[2, 2, 2], steps=40, random_seed=seed).fit(RB, CB)
        return t.genotypes.tobytes()

    def callA():
        t = CallingMCMC(ploidy=4, haplotypes=haps, steps=60, random_seed=seed).fit(RA, CA)
        return t.genotypes.tobytes() + t.llks.tobytes()

    def callInit():
        # an explicit start state (documented argument): the fit must still be seeded
        t = CallingMCMC(ploidy=4, haplotypes=haps, steps=60, random_seed=seed).fit(RA, CA, initial=np.array([0, 1, 2, 3]))
        return t.genotypes.tobytes() + t.llks.tobytes()

    def callMH():
        t = CallingMCMC(ploidy=3, haplotypes=haps, steps=60, random_seed=seed, step_type="Metropolis-Hastings").fit(RB, CB)
        return t.genotypes.tobytes()

    def pedA():
        m = PedigreeCallingMCMC(sample_ploidy=np.array([2, 2, 2]), sample_inbreeding=np.zeros(3), sample_parents=np.array([[-1, -1], [-1, -1], [0, 1]]),
                                gamete_tau=np.ones((3, 2), int), gamete_lambda=np.zeros((3, 2)), gamete_error=np.full((3, 2), 0.01), haplotypes=haps,
                                steps=40, annealing=10, random_seed=seed)
        return m.fit(np.tile(RA, (3, 1, 1, 1)), np.tile(CA, (3, 1))).genotypes.tobytes()

    # the same two distinct reads with different multiplicities (single SNV: "reference call" / "alternate call"): anything remembered from one fit that
    # is keyed by the read matrix alone would be wrong for the other (the homozygosity screen fixes the SNV for 59:1 but not for 30:30)
    RC = np.array([rd([0]), rd([1])])

    def fitC1():
        t = DenovoMCMC(ploidy=4, n_alleles=[2], steps=40, chains=1, random_seed=seed).fit(RC, np.array([30, 30]))
        return t.genotypes.tobytes()

    def fitC2():
        t = DenovoMCMC(ploidy=4, n_alleles=[2], steps=40, chains=1, random_seed=seed).fit(RC, np.array([59, 1]))
        return t.genotypes.tobytes()

    ops = {"fitC1": fitC1, "fitC2": fitC2, "fitA": fitA, "fitB": fitB, "callA": callA, "callInit": callInit, "callMH": callMH, "pedA": pedA, "nprand": lambda: np.random.rand(), "nbdraw": lambda: _nbdraw(),
           "npseed": lambda: np.random.seed(99), "nbseed": lambda: seed_numba(123)}
    targets = ("fitA", "fitB", "callA", "callMH", "pedA", "fitC1", "fitC2", "callInit")
    return ops, targets


_nbdraw = None


def job_hist(job):
    _, seed, first, depth, _ = job
    r = Result()
    payload = {"kind": "job", "job": job}
    ops, targets = history_ops(seed)
    np.random.seed(4242)
    from mchap.jitutils import seed_numba

    seed_numba(4242)
    base = {k: ops[k]() for k in targets}
    # a fit is itself repeatable
    for k in targets:
        if ops[k]() != base[k]:
            r.violation("hist-repeat|seed=%d|target=%s" % (seed, k), "two consecutive identical fits differ", payload)
    names = sorted(ops)
    for d in range(1, depth + 1):
        for rest in itertools.product(names, repeat=d - 1):
            seq = (first,) + rest
            for target in targets:
                for o in seq:
                    ops[o]()
                r.evaluations += 1
                r.nontrivial += 1
                r.states += 1
                r.transitions += len(seq) + 1
                got = ops[target]()
                if got != base[target]:
                    r.violation("hist|seed=%d|target=%s" % (seed, target),
                                "the trace of %s with random_seed=%d differs after the history %r" % (target, seed, seq), payload)
                r.outcome((target, seed, hash(got)))
    r.sample({"history": [first, "..."], "depth": depth, "seed": seed, "targets": list(targets)}, cap=1)
    return r


# --------------------------------------------------------------------------- 4. locus order / subsets
def job_order(job):
    from .. import stddata

    _, prog, seed, ch, nch, _ = job
    r = Result()
    payload = {"kind": "job", "job": job}
    d = env.scratch_dir("c08o")
    D = stddata.Data(d)
    names = ["L1", "L5", "L3", "L4"]
    mods = stddata.modules()
    if prog == "assemble":
        argv = D.assemble_args(bed=D.bed_subset(names, "o.bed"), extra=["--mcmc-seed", str(seed)])
    else:
        asm = stddata.run(D.assemble_args(bed=D.bed_subset(names, "o.bed")))
        hv = D.save_vcf(asm, "o_asm.vcf")
        argv = D.call_args(prog, hv, extra=(["--mcmc-seed", str(seed)] if prog == "call" else []))
    P = mods[prog].program.cli(argv)
    loci = list(P.loci())
    byname = {l.name: l for l in loci}
    env.quiet()
    ref_lines = {l.name: line for l, line in zip(loci, P._assemble_loci_wrapped(loci))}
    subsets = [p for k in range(1, len(names) + 1) for p in itertools.permutations(names, k)]
    for i, sub in enumerate(subsets):
        if i % nch != ch:
            continue
        lines = list(P._assemble_loci_wrapped([byname[n] for n in sub]))
        r.evaluations += 1
        r.states += 1
        r.transitions += len(sub)
        if len(sub) >= 2:
            r.nontrivial += 1
        for n, line in zip(sub, lines):
            if line != ref_lines[n]:
                r.violation("order|%s|seed=%d|locus=%s" % (prog, seed, n),
                            "record of %s differs when the loci processed are %r (in that order) rather than %r" % (n, sub, tuple(names)), payload)
        r.outcome((prog, seed, sub, hash(tuple(lines))))
    # header: identical apart from date / command line
    h1 = [l for l in P.header() if not l.startswith("##fileDate") and not l.startswith("##commandline")]
    P2 = mods[prog].program.cli(argv + [])
    h2 = [l for l in P2.header() if not l.startswith("##fileDate") and not l.startswith("##commandline")]
    if h1 != h2:
        r.violation("order-header|%s" % prog, "header differs between two constructions of the same program", payload)
    r.sample({"program": prog, "seed": seed, "ordered_subsets": len(subsets), "loci": names}, cap=1)
    return r


# --------------------------------------------------------------------------- 5. real processes
def job_cli(job):
    from .. import stddata, synth
    from concurrent.futures import ThreadPoolExecutor

    _, runs, seed, _ = job
    r = Result()
    payload = {"kind": "job", "job": job}
    d = env.scratch_dir("c08c")
    D = stddata.Data(d)
    names = ["L1", "L5", "L2", "L3", "L4"]
    bed_id = D.bed_subset(names, "id.bed")
    bed_rev = D.bed_subset(names[::-1], "rev.bed")
    # a BAM whose alignment reference (MD tag) contradicts the SNV file at L3 -> a worker-side failure at that locus
    bad = stddata.sample_reads("S2")
    for rd in bad:
        if rd["contig"] == "chr2":
            rd["md"] = "5T12"
    bad_bam = synth.write_bam(os.path.join(str(d), "S2bad.bam"), [("rg2", "S2")], bad)
    asm_text = stddata.run(D.assemble_args(bed=bed_id))
    hv = D.save_vcf(asm_text, "cli_asm.vcf")
    env.quiet()

    # a pedigree with several members that have no BAM (dummy samples), listed in the pedigree file only
    ped = os.path.join(str(d), "ped_dummy.txt")
    with open(ped, "w") as f:
        f.write("FA\t.\t.\nFB\t.\t.\nFC\t.\t.\nFD\t.\t.\nS1\tFA\tFB\nS2\tFC\tFD\nS3\tS1\tS2\n")
    plo = os.path.join(str(d), "ploidy_dummy.txt")
    with open(plo, "w") as f:
        f.write("S1\t4\nS2\t2\nS3\t6\nFA\t4\nFB\t4\nFC\t2\nFD\t2\n")
    tau = os.path.join(str(d), "tau_dummy.txt")
    with open(tau, "w") as f:
        f.write("S1\t2\t2\nS2\t1\t1\nS3\t4\t2\nFA\t2\t2\nFB\t2\t2\nFC\t1\t1\nFD\t1\t1\n")

    def argv_for(prog, cores, mode):
        if prog == "call-pedigree":
            a = D.call_args(prog, hv, extra=["--cores", str(cores), "--sample-parents", ped, "--gamete-ploidy", tau, "--ploidy", plo])
            return a
        if prog == "assemble":
            a = D.assemble_args(bed=bed_rev if mode == "rev" else bed_id, extra=["--cores", str(cores)])
            if mode == "fail":
                a = [bad_bam if x == D.bams["S2"] else x for x in a]
        else:
            a = D.call_args(prog, hv, extra=["--cores", str(cores)])
        return a

    def launch(spec):
        prog, cores, mode = spec
        a = argv_for(prog, cores, mode)
        cmd = [sys.executable, "-c", "import sys; sys.argv=sys.argv[1:]; from mchap.application.cli import main; main()"] + a
        import signal

        envp = dict(os.environ)
        if mode.startswith("hash"):
            envp["PYTHONHASHSEED"] = mode[4:]
        p = subprocess.Popen(cmd, stdout=subprocess.PIPE, stderr=subprocess.PIPE, text=True, env=envp, start_new_session=True)
        try:
            out, err = p.communicate(timeout=CLI_TIMEOUT)
        except subprocess.TimeoutExpired:
            try:
                os.killpg(p.pid, signal.SIGKILL)  # the whole process group: pool workers and manager too
            except ProcessLookupError:
                pass
            out, err = p.communicate()
            return spec, "timeout", out or "", err or ""
        return spec, p.returncode, out, err

    with ThreadPoolExecutor(max_workers=6) as ex:
        results = list(ex.map(launch, runs))
    base = {}
    for (prog, cores, mode), rc, out, err in results:
        r.evaluations += 1
        r.traces += 1
        r.nontrivial += 1
        tag = "cli|%s|cores=%d|%s" % (prog, cores, mode)
        recs = stddata.records(out)
        hdr = [l for l in stddata.header(out) if not l.startswith("##fileDate") and not l.startswith("##commandline")]
        if rc == "timeout":
            r.violation(tag + "|no-exit", "the process did not exit within %d s (%d records written)" % (CLI_TIMEOUT, len(recs)), payload)
            continue
        if mode == "fail":
            if rc == 0:
                r.violation(tag, "a locus failed in a worker but the process exited 0 with %d records" % len(recs), payload)
            if len(set(recs)) != len(recs):
                r.violation(tag, "duplicated records on the failure path", payload)
            r.outcome((tag, rc != 0))
            continue
        if rc != 0:
            r.violation(tag, "exit status %d: %s" % (rc, err[-300:]), payload)
            continue
        key = prog
        if key not in base:
            base[key] = (sorted(recs), hdr, (cores, mode))
            if prog == "assemble":
                # the in-process single-core run is the model trace
                if sorted(recs) != sorted(stddata.records(asm_text)):
                    r.violation(tag, "subprocess records differ from the in-process run with the same inputs and seed", payload)
        else:
            if sorted(recs) != base[key][0]:
                r.violation(tag, "set of record lines differs from the run with cores=%s/%s" % base[key][2], payload)
            if hdr != base[key][1]:
                r.violation(tag, "header differs (beyond fileDate/commandline) from the run with cores=%s/%s" % base[key][2], payload)
        n_expected = len(names) if prog == "assemble" else len(stddata.records(asm_text))
        if len(recs) != n_expected or len(set(recs)) != len(recs):
            r.violation(tag, "%d records for %d loci" % (len(recs), n_expected), payload)
        if not all(l.endswith("") and l.count("\t") >= 9 for l in recs):
            r.violation(tag, "a record line is not intact", payload)
        r.outcome((tag, len(recs)))
    r.sample({"cli_runs": [list(x) for x in runs]}, cap=1)
    return r
