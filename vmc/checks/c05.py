"""C05  Genotype priors are proper distributions and mutually consistent.

Bounded exhaustive enumeration: every (ploidy, n_alleles, F, frequency vector from a grid that
contains zeros) x every unordered genotype x every slot, against an exact reference
(multinomial / Dirichlet-multinomial by rising factorials; Fractions for the sum-to-one of the
reference itself)."""
import itertools
import math
from fractions import Fraction

import numpy as np

from ..result import Result
from .. import refmodel as ref

META = {
    "level": "exploration",
    "rule": "all (ploidy P, alleles H, inbreeding F, frequency vector = composition of N into H parts / N incl. zeros, "
    "or None) x all unordered genotypes x all slots x (calling prior, allele conditional, assemble prior over all "
    "haplotype multisets, permutation count); a case is one (parameters, genotype[, slot]) tuple, non-trivial when "
    "ploidy >= 2; each is enumerated exactly once",
    "bound": {
        "quick": "P<=5, H<=4, F in 9-value grid {0, 1e-6, 5e-4, 0.004, 0.01, 0.1, 0.5, 0.9, 0.99} (+1 seed-rotated), freqs compositions of 4; assemble U<=8 haplotypes, P<=4",
        "thorough": "P<=8, H<=5, freqs compositions of 8; assemble U<=16, P<=6",
    },
    "assumptions": [
        "reference = textbook multinomial / Dirichlet-multinomial pmf with alpha = f(1-F)/F, written with rising factorials",
        "float comparison rtol 1e-9 / atol 1e-12; for tiny F the log-gamma form cancels large terms, so rtol grows by 8 ulp x |lgamma(sum alpha + ploidy)| (1.3e-8 at F = 1e-6)",
    ],
    "trusted_base": ["python math / fractions", "numba dispatcher semantics (functions are called jitted)"],
}

F_GRID = [Fraction(0), Fraction(1, 10 ** 6), Fraction(1, 2000), Fraction(1, 250), Fraction(1, 100), Fraction(1, 10), Fraction(1, 2), Fraction(9, 10), Fraction(99, 100)]
F_SEED = [Fraction(1, 20), Fraction(3, 10), Fraction(7, 10), Fraction(19, 20), Fraction(1, 3)]


def compositions(n, k):
    if k == 1:
        yield (n,)
        return
    for i in range(n + 1):
        for rest in compositions(n - i, k - 1):
            yield (i,) + rest


def warm(tier):
    from mchap.calling.prior import log_genotype_prior, log_genotype_allele_prior
    from mchap.assemble.prior import log_genotype_prior as asm
    from mchap.jitutils import ln_equivalent_permutations, get_haplotype_dosage

    g = np.array([0, 1], np.int64)
    fr = np.array([0.5, 0.5])
    for F in (0.0, 0.1):
        log_genotype_prior(g, 2, F, None)
        log_genotype_prior(g, 2, F, fr)
        log_genotype_allele_prior(g, 0, 2, F, None)
        log_genotype_allele_prior(g, 0, 2, F, fr)
        asm(np.array([1, 1], np.int8), math.log(4.0), F)
    ln_equivalent_permutations(np.array([1, 1], np.int8))
    d = np.zeros(2, np.int8)
    get_haplotype_dosage(d, np.array([[0, 1], [1, 1]], np.int8))


def plan(tier, seed):
    Fs = F_GRID + [F_SEED[seed % len(F_SEED)]]
    maxP, maxH, N = (5, 4, 4) if tier == "quick" else (8, 5, 8)
    jobs = []
    for P in range(1, maxP + 1):
        for H in range(1, maxH + 1):
            for F in Fs:
                jobs.append(("call", P, H, (F.numerator, F.denominator), N))
    aU, aP = ((2, 3, 4, 6, 8), 4) if tier == "quick" else ((2, 3, 4, 6, 8, 9, 12, 16), 6)
    for U in aU:
        for P in range(1, aP + 1):
            jobs.append(("asm", P, U, tuple((F.numerator, F.denominator) for F in Fs), 0))
    jobs.append(("usage", 3, 3, seed, 0))
    for P in ((20, 21, 22, 30, 36, 48, 67, 100) if tier == "quick" else (20, 21, 22, 24, 27, 30, 33, 36, 40, 48, 60, 67, 80, 100, 120)):
        jobs.append(("highploidy", P, 4, seed, 0))
    jobs.sort(key=lambda j: -(min(j[1], 9) ** 3) * j[2] ** 2)
    return jobs


def close(a, b, rtol=1e-9, atol=1e-12):
    if a == b:
        return True
    return abs(a - b) <= atol + rtol * max(abs(a), abs(b))


def rt(F, P):
    """relative tolerance for a pmf evaluated as a difference of log-gammas at dispersion (1-F)/F"""
    F = float(F)
    if F <= 0:
        return 1e-9
    S = (1 - F) / F + P
    return 1e-9 + 8 * 2.3e-16 * abs(math.lgamma(S))


def run_job(job):
    kind = job[0]
    if kind == "call":
        return job_call(job)
    if kind == "usage":
        return job_usage(job)
    if kind == "highploidy":
        return job_highploidy(job)
    return job_asm(job)


def job_call(job):
    from mchap.calling.prior import log_genotype_prior, log_genotype_allele_prior
    from mchap.jitutils import ln_equivalent_permutations

    _, P, H, (fn, fd), N = job
    F = Fraction(fn, fd)
    Ff = float(F)
    r = Result()
    gens = ref.multisets(range(H), P)
    freq_sets = [None] + [c for c in compositions(N, H)]
    for comp in freq_sets:
        if comp is None:
            fq = [Fraction(1, H)] * H
            farr = None
        else:
            fq = [Fraction(c, N) for c in comp]
            farr = np.array([float(x) for x in fq])
        fqf = [float(x) for x in fq]
        total = 0.0
        # exactness of the reference itself (kept to small spaces: Fractions are slow)
        if len(gens) <= 70:
            s = sum(ref.dm_prior(g, fq, F) for g in gens)
            if s != 1:
                raise AssertionError("reference prior does not sum to one: %r" % (s,))
        pord = {}
        for g in gens:
            ga = np.array(g, np.int64)
            lp = log_genotype_prior(ga, H, Ff, farr)
            p = math.exp(lp) if lp > -math.inf else 0.0
            want = ref.dm_prior(g, fqf, Ff)
            r.evaluations += 1
            if P >= 2:
                r.nontrivial += 1
            r.maxi("prior_abs_err", abs(p - want))
            if not close(p, want, rt(F, P)) or (want == 0) != (p == 0):
                r.violation(
                    "prior|P=%d|H=%d|F=%s|freq=%s|g=%s" % (P, H, F, comp, g),
                    "log_genotype_prior gives %.15g, reference DM/multinomial pmf %.15g" % (p, want),
                    {"kind": "job", "job": job},
                )
            total += p
            pord[g] = want / ref.perms(g)
            r.outcome(("p", round(p, 12)))
        if not close(total, 1.0, rt(F, P), 1e-9):
            r.violation(
                "prior-sum|P=%d|H=%d|F=%s|freq=%s" % (P, H, F, comp),
                "genotype prior sums to %.15g over all %d unordered genotypes" % (total, len(gens)),
                {"kind": "job", "job": job},
            )
        # conditional of one allele given the rest
        for g in gens:
            if pord[g] == 0:
                continue  # unreachable state (contains a zero-prior allele)
            for perm in sorted(set(itertools.permutations(g))) if P <= 3 else [g, tuple(reversed(g))]:
                ga = np.array(perm, np.int64)
                for k in range(P):
                    den = 0.0
                    for a in range(H):
                        g2 = list(perm)
                        g2[k] = a
                        den += pord[tuple(sorted(g2))]
                    want = pord[g] / den
                    lp = log_genotype_allele_prior(ga, k, H, Ff, farr)
                    got = math.exp(lp) if lp > -math.inf else 0.0
                    r.evaluations += 1
                    if P >= 2:
                        r.nontrivial += 1
                    r.maxi("conditional_abs_err", abs(got - want))
                    if not close(got, want, rt(F, P), 1e-12):
                        r.violation(
                            "allele-prior|P=%d|H=%d|F=%s|freq=%s|g=%s|k=%d" % (P, H, F, comp, perm, k),
                            "log_genotype_allele_prior gives %.15g, exact conditional of the genotype prior %.15g" % (got, want),
                            {"kind": "job", "job": job},
                        )
        if comp is None:
            r.sample({"P": P, "H": H, "F": str(F), "freq": "flat(None)", "n_genotypes": len(gens), "sum": total})
    # permutation count
    for g in gens:
        dos = [g.count(a) for a in range(H)]
        got = ln_equivalent_permutations(np.array(dos, np.int64))
        want = math.log(ref.perms(g))
        r.evaluations += 1
        if not close(got, want, 1e-12, 1e-12):
            r.violation(
                "ln-perms|dosage=%s" % (dos,),
                "ln_equivalent_permutations %.15g != log multinomial coefficient %.15g" % (got, want),
                {"kind": "job", "job": job},
            )
    return r


def job_highploidy(job):
    """pooled samples reach ploidies at which the multinomial coefficient exceeds 2^63 (21 distinct haplotypes, 9:9:9:9 at ploidy 36, 34:33 at 67): the
    permutation count, the F = 0 and F > 0 genotype priors must stay the exact (Dirichlet-)multinomial and sum to one"""
    from mchap.calling.prior import log_genotype_prior
    from mchap.assemble.prior import log_genotype_prior as asm_prior
    from mchap.jitutils import ln_equivalent_permutations

    _, P, K, seed, _ = job
    r = Result()
    payload = {"kind": "job", "job": job}
    lf = [math.lgamma(i + 1) for i in range(P + 1)]
    # every dosage vector with <= K distinct alleles (sorted: the functions see first-instance dosages padded with zeros), plus all-distinct
    vecs = set()
    for k in range(1, K + 1):
        for comp in compositions(P - k, k):
            vecs.add(tuple(sorted((c + 1 for c in comp), reverse=True)))
    vecs.add((1,) * P)
    vecs.add((2,) * (P // 2) + (1,) * (P % 2))
    for dos in sorted(vecs):
        arr = np.zeros(P, np.int64)
        arr[: len(dos)] = dos
        want = lf[P] - sum(lf[d] for d in dos)
        for dt in (np.int64, np.int8):
            got = float(ln_equivalent_permutations(arr.astype(dt)))
            r.evaluations += 1
            r.nontrivial += 1
            if not (abs(got - want) <= 1e-9 * max(1.0, abs(want))):
                r.violation("ln-perms-high|P=%d|dtype=%s" % (P, np.dtype(dt).name), "dosage %r: ln_equivalent_permutations %.12g, log multinomial coefficient %.12g" % (dos, got, want), payload)
        r.outcome((P, dos))
    # priors over K alleles: sum to one and equal the reference for F = 0 and F = 0.1 (skewed frequencies incl. the assemble flat prior)
    H = 3 if P > 40 else 4
    fq = [0.4, 0.3, 0.2, 0.1][:H]
    fq = [x / sum(fq) for x in fq]
    for F in (0.0, 0.1):
        for farr, fl in ((None, [1.0 / H] * H), (np.array(fq), fq)):
            tot = 0.0
            lg = [math.log(x) for x in fl]
            s_ = (1 - F) / F if F else 0.0
            for comp in compositions(P, H):
                g = np.array([a for a, c in enumerate(comp) for _ in range(c)], np.int64)
                lp = float(log_genotype_prior(g, H, F, farr))
                if F == 0:
                    want = lf[P] - sum(lf[c] for c in comp) + sum(c * lg[a] for a, c in enumerate(comp))
                else:
                    want = lf[P] - sum(lf[c] for c in comp) + sum(math.lgamma(fl[a] * s_ + c) - math.lgamma(fl[a] * s_) for a, c in enumerate(comp)) \
                        - (math.lgamma(s_ + P) - math.lgamma(s_))
                r.evaluations += 1
                r.nontrivial += 1
                if not (abs(lp - want) <= 1e-8 * max(1.0, abs(want))):
                    r.violation("prior-high|P=%d|H=%d|F=%g|freq=%s" % (P, H, F, "flat" if farr is None else "skew"), "allele counts %r: log prior %.12g, reference %.12g" % (comp, lp, want), payload)
                tot += math.exp(lp)
                if farr is None and sum(1 for c in comp if c) == H and comp == tuple(sorted(comp, reverse=True)):
                    d = np.zeros(P, np.int8)
                    d[:H] = comp
                    la = float(asm_prior(d, math.log(H), F))
                    if not (abs(la - lp) <= 1e-8 * max(1.0, abs(lp))):
                        r.violation("asm-prior-high|P=%d|F=%g" % (P, F), "dosage %r: assemble prior %.12g, calling prior with flat frequencies %.12g" % (comp, la, lp), payload)
            if not (abs(tot - 1.0) <= 1e-7):
                r.violation("prior-sum-high|P=%d|H=%d|F=%g|freq=%s" % (P, H, F, "flat" if farr is None else "skew"), "prior sums to %.12g over all genotypes" % tot, payload)
    r.sample({"high_ploidy": P, "dosage_vectors": len(vecs), "alleles": H}, cap=1)
    return r


def job_asm(job):
    """assemble prior == calling prior with flat frequencies over all U possible haplotypes."""
    from mchap.assemble.prior import log_genotype_prior as asm_prior
    from mchap.calling.prior import log_genotype_prior as call_prior
    from mchap.jitutils import get_haplotype_dosage

    _, P, U, Fs, _ = job
    r = Result()
    # haplotypes as rows over SNVs whose allele counts multiply to U
    shapes = {2: (2,), 3: (3,), 4: (2, 2), 6: (3, 2), 8: (2, 2, 2), 9: (3, 3), 12: (3, 2, 2), 16: (2, 2, 2, 2)}
    n_alleles = shapes[U]
    haps = list(itertools.product(*[range(a) for a in n_alleles]))
    luh = math.log(U)
    luh_np = float(np.log(np.array(n_alleles)).sum())
    flat = [1.0 / U] * U
    gens = ref.multisets(range(U), P)
    for fn, fd in Fs:
        F = Fraction(fn, fd)
        Ff = float(F)
        total = 0.0
        for g in gens:
            rows = np.array([haps[a] for a in g], np.int8).reshape(P, len(n_alleles))
            orders = sorted(set(itertools.permutations(range(P)))) if P <= 3 else [tuple(range(P)), tuple(reversed(range(P)))]
            vals = []
            for o in orders:
                d = np.empty(P, np.int8)
                get_haplotype_dosage(d, rows[list(o)])
                vals.append(asm_prior(d, luh_np, Ff))
            lp = vals[0]
            p = math.exp(lp)
            want = ref.dm_prior(g, flat, Ff)
            cp = math.exp(call_prior(np.array(g, np.int64), U, Ff, None))
            r.evaluations += 1
            if P >= 2:
                r.nontrivial += 1
            r.maxi("asm_prior_abs_err", abs(p - want))
            if max(vals) - min(vals) > 1e-12:
                r.violation(
                    "asm-prior-order|P=%d|U=%d|F=%s|g=%s" % (P, U, F, g),
                    "assemble prior depends on the row order of the genotype: %r" % (vals,),
                    {"kind": "job", "job": job},
                )
            if not close(p, want, rt(F, P)) or not close(p, cp, rt(F, P)):
                r.violation(
                    "asm-prior|P=%d|U=%d|F=%s|g=%s" % (P, U, F, g),
                    "assemble prior %.15g, reference flat DM %.15g, calling prior with flat frequencies %.15g" % (p, want, cp),
                    {"kind": "job", "job": job},
                )
            total += p
            r.outcome(("a", round(p, 12)))
        if not close(total, 1.0, rt(F, P), 1e-9):
            r.violation(
                "asm-prior-sum|P=%d|U=%d|F=%s" % (P, U, F),
                "assemble prior sums to %.15g over all %d unordered genotypes" % (total, len(gens)),
                {"kind": "job", "job": job},
            )
        r.sample({"assemble": True, "P": P, "U": U, "F": str(F), "n_genotypes": len(gens), "sum": total}, cap=2)
    return r


def job_usage(job):
    """the prior *as the assemble sampler uses it*: the haplotype-space size handed to every sub-step is prod(n_alleles), and the
    temperature exchange evaluates the same Dirichlet-multinomial prior (with the sample's inbreeding) for both chains"""
    import types
    import mchap.assemble.mcmc as mc
    from mchap.assemble import tempering
    from mchap.jitutils import get_haplotype_dosage
    from ..seams import Oracle, NumpyProxy, patched, unpatched
    from .. import kasm

    r = Result()
    payload = {"kind": "job", "job": job}
    # (a) log_unique_haplotypes reaching the moves, for mixed allele counts
    for n_alleles in ((2, 3, 2, 4), (2, 2), (3, 3, 4), (4, 2), (2,), (3, 2, 2)):
        seen = []

        def mut(**kw):
            seen.append(("mutation", float(kw["log_unique_haplotypes"]), float(kw["inbreeding"])))
            return kw["llk"], kw["cache"]

        def strc(**kw):
            seen.append(("structural", float(kw["log_unique_haplotypes"]), float(kw["inbreeding"])))
            return kw["llk"], kw["cache"]

        def swap(**kw):
            seen.append(("exchange", float(kw["log_unique_haplotypes"]), float(kw.get("inbreeding", -1))))
            return kw["llk_i"], kw["llk_j"]

        nb = len(n_alleles)
        g = np.zeros((2, nb), np.int8)
        reads = np.full((1, nb, max(n_alleles)), 1.0 / max(n_alleles))
        o = Oracle([], rand_values=(0.0,))
        with patched((mc, "np", NumpyProxy(o)), (mc, "mutation", types.SimpleNamespace(compound_step=mut)),
                     (mc, "structural", types.SimpleNamespace(compound_step=strc, random_breaks=lambda b, n: np.array([[0, n]]))),
                     (mc, "chain_swap_step", swap), (mc, "random_choice", lambda p: 0)):
            mc._denovo_assembler.py_func(genotype=g, inbreeding=0.3, reads=reads, read_counts=None, n_alleles=np.array(n_alleles, np.int64), steps=1,
                                         break_dist=np.array([1.0]), recombination_step_probability=1.0, partial_dosage_step_probability=1.0,
                                         dosage_step_probability=1.0, temperatures=np.array([0.5, 1.0]), return_heated_trace=False, llk_cache_threshold=-1)
        want = math.log(float(np.prod(n_alleles)))
        r.evaluations += 1
        r.nontrivial += 1
        for who, luh, F in seen:
            if abs(luh - want) > 1e-9 or abs(F - 0.3) > 1e-12:
                r.violation("usage-haplotype-space|%s" % who, "n_alleles=%r: %s receives log_unique_haplotypes=%.9g (exp -> %.4g haplotypes) and inbreeding %g; the flat prior is over prod(n_alleles)=%d haplotypes, inbreeding 0.3" % (
                    n_alleles, who, luh, math.exp(luh), F, int(np.prod(n_alleles))), payload)
                break
        if not {"mutation", "structural", "exchange"} <= {w for w, _, _ in seen}:
            r.violation("usage-coverage", "sub-steps reached: %r" % sorted({w for w, _, _ in seen}), payload)
        r.outcome((n_alleles, round(want, 9)))
    # (b) priors entering the exchange acceptance
    inst = kasm.Instance(3, (2, 2), 0, job[3])
    real_acc = tempering.chain_swap_acceptance
    got = {}

    def acc(llk_i, lp_i, t_i, llk_j, lp_j, t_j):
        got["p"] = (float(lp_i), float(lp_j))
        with unpatched():
            return real_acc(llk_i, lp_i, t_i, llk_j, lp_j, t_j)

    for F in (0.0, 0.25, 0.6):
        for si in inst.states:
            for sj in inst.states:
                gi, gj = kasm.as_array(si), kasm.as_array(sj)
                o = Oracle([0], rand_values=(2.0,))
                with patched((tempering, "np", NumpyProxy(o)), (tempering, "chain_swap_acceptance", acc)):
                    tempering.chain_swap_step.py_func(gi, -1.0, 1.0, gj, -2.0, 0.5, inst.luh, F)
                wi, wj = math.log(inst.prior(si, F)), math.log(inst.prior(sj, F))
                r.evaluations += 1
                r.nontrivial += 1
                if abs(got["p"][0] - wi) > 1e-9 or abs(got["p"][1] - wj) > 1e-9:
                    r.violation("usage-exchange-prior|F=%g" % F, "exchange between %r and %r uses log priors %r, the (Dirichlet-)multinomial prior with F=%g gives %r" % (si, sj, got["p"], F, (wi, wj)), payload)
    r.sample({"usage": "haplotype-space size and priors as used by _denovo_assembler / chain_swap_step"})
    return r
