"""C01  Assembly sampler: every move leaves the tempered posterior invariant.

Engine K: for small instances, *every* unordered genotype, in *every* row order, is fed to the real
move functions (numba `.py_func`, random seam owned); the exact transition row is read off the
probability vector handed to the seam and every answer is forced.  Invariants are evaluated on
every state / edge of the resulting labelled graph against a reference posterior that shares no
code with mchap."""
import itertools
import math
import types

import numpy as np

from ..result import Result
from .. import refmodel as ref
from .. import kasm
from ..seams import Oracle, NumpyProxy, patched, unpatched, explore

META = {
    "level": "model_checking",
    "rule": "states = all unordered genotypes of an instance (ploidy, n_alleles, read set); transitions = "
    "(ordered presentation of a state, elementary move, forced seam answer) triples executed on the real py_func bodies; "
    "a state is non-trivial when it has >= 2 distinct haplotypes or a duplicated haplotype among >= 3 copies; "
    "orchestration runs enumerate every gate/swap answer sequence",
    "bound": {
        "quick": "P in {2,3,4}; n_alleles in {(2,2),(3,2),(2,2,2)} (P=4: (2,2) and (2,2,2)); 2 read sets; (F,T) in {(0,1),(0.3,1),(0.3,0.5),(0.1,0.25),(0.004,1)}; "
        "all contiguous intervals; ladders (0.5,1),(0.25,0.5,1); orchestration: ladders 1..3, 2 steps (3 temps: 1 step)",
        "thorough": "adds P=3x(3,3), P in {5,6}x(2,2), P=3x(2,2,2,2), P=4x(3,2), P=4x(3,3), P=3x(3,2,2), P=2x(2,2,2,2), P=2x(3,3,2), P=2x(4,2); F in {0,0.004,0.05,0.3,0.9}; T in {1,0.5,0.1}",
    },
    "assumptions": [
        "py_func and the compiled dispatcher execute the same source; machine-level divergence is checked by predicting the "
        "jitted move's outcome from the model row and numba's next uniform for one seed per (state, move)",
        "reads enter detailed balance only through the numbers L(s); two generic read sets per instance (seed-rotated)",
        "long-run frequencies = posterior is concluded from reversibility + irreducibility on the enumerated instances",
    ],
    "trusted_base": ["vmc/refmodel.py (likelihood, Dirichlet-multinomial prior)", "numba py_func == source of dispatcher"],
}

RTOL = 1e-8


def warm(tier):
    from mchap.assemble import mutation, structural, tempering
    from mchap.assemble.likelihood import log_likelihood

    inst = kasm.Instance(2, (2, 2), 0, 0)
    g = kasm.as_array(inst.states[1])
    llk = log_likelihood(inst.reads, g, read_counts=inst.counts)
    mutation.base_step(g.copy(), inst.reads, llk, 0, 0, 2, inst.luh, 0.1, 0.5, inst.counts, None)
    structural.interval_step(g.copy(), inst.reads, llk, inst.luh, 0.1, np.array([0, 1]), 0, 0.5, inst.counts, None)
    structural.interval_step(g.copy(), inst.reads, llk, inst.luh, 0.1, np.array([0, 1]), 1, 0.5, inst.counts, None)
    tempering.chain_swap_step(g.copy(), llk, 1.0, g.copy(), llk, 0.5, inst.luh, 0.1)
    kasm.numba_uniform(1)


def instances(tier):
    out = []
    for P in (2, 3):
        for A in ((2, 2), (3, 2), (2, 2, 2)):
            out.append((P, A))
    out += [(4, (2, 2)), (4, (2, 2, 2))]
    if tier == "thorough":
        out += [(3, (3, 3)), (5, (2, 2)), (6, (2, 2)), (3, (2, 2, 2, 2)), (4, (3, 2)), (4, (3, 3)), (3, (3, 2, 2)), (2, (2, 2, 2, 2)), (2, (3, 3, 2)), (2, (4, 2))]
    return out


def ft_pairs(tier):
    if tier == "quick":
        # T = 0 is a legal ladder value (prior-free, likelihood-free hottest chain): the carried likelihood must still follow the state
        return [(0.0, 1.0), (0.3, 1.0), (0.3, 0.5), (0.1, 0.25), (0.004, 1.0), (0.3, 0.0)]
    return [(F, T) for F in (0.0, 0.004, 0.05, 0.3, 0.9) for T in (1.0, 0.5, 0.1)] + [(0.3, 0.0)]


def plan(tier, seed):
    jobs = []
    for (P, A) in instances(tier):
        nb = len(A)
        intervals = [(a, b) for a in range(nb) for b in range(a + 1, nb + 1)] + [None]
        nstates = math.comb(int(np.prod(A)) + P - 1, P)
        read_sets = (0, 1) if nstates <= 130 or tier == "thorough" else (seed % 2,)
        for rs in read_sets:
            spec = (P, A, rs, seed)
            for (F, T) in ft_pairs(tier):
                for j in range(nb):
                    jobs.append(("base", spec, F, T, j, nstates * math.factorial(P)))
                for iv in intervals:
                    for st in (0, 1):
                        jobs.append(("interval", spec, F, T, iv, st, nstates * math.factorial(P)))
            for F in (0.0, 0.3):
                if nstates <= 130:
                    jobs.append(("swap", spec, F, (0.25, 0.5, 1.0), nstates * nstates / 10))
                jobs.append(("irreducible", spec, F, 1.0, nstates))
    for n_temps, steps in ((1, 2), (2, 2), (3, 1)):
        for heated in (False, True):
            jobs.append(("orch", n_temps, steps, heated, 5000))
    jobs.append(("fit-handoff", seed, 100))
    jobs.sort(key=lambda j: -j[-1])
    return jobs


def run_job(job):
    kind = job[0]
    return {"base": job_base, "interval": job_interval, "swap": job_swap, "irreducible": job_irreducible, "orch": job_orch, "fit-handoff": job_fit_handoff}[kind](job)


def job_fit_handoff(job):
    """DenovoMCMC.fit / _mcmc -> _denovo_assembler: the sampler object's parameters reach the keyword they belong to (vmc/handoff.py)"""
    from .. import handoff

    r = Result()
    handoff.asm_fit(r, {"kind": "job", "job": job})
    handoff.asm_compound(r, {"kind": "job", "job": job})
    r.sample({"orchestration": "DenovoMCMC.fit -> _mcmc -> _denovo_assembler"}, cap=1)
    return r


def nontrivial_state(s):
    return len(set(s)) >= 2 or len(s) >= 3


def relerr(a, b):
    m = max(abs(a), abs(b))
    return 0.0 if m == 0 else abs(a - b) / m


# --------------------------------------------------------------------------- base_step
def job_base(job):
    _, spec, F, T, j, _ = job
    inst = kasm.Instance(*spec)
    r = Result()
    P = inst.ploidy
    payload = {"kind": "job", "job": job}
    tag = "%s|F=%g|T=%g" % (inst.name(), F, T)
    rows_of = {}  # (ordered rows, h) -> probability vector
    lp = {s: inst.log_pi(s, F, T) for s in inst.states}
    for s in inst.states:
        r.states += 1
        if nontrivial_state(s):
            r.nontrivial += 1
        per_hap = {}
        for rows in kasm.orders(s):
            for h in range(P):
                cur = rows[h][j]
                na = inst.n_alleles[j]
                p, a, g1, llk1 = kasm.base_row(inst, rows, h, j, F, T)
                r.evaluations += 1
                rows_of[(rows, h)] = p
                if len(p) != na or abs(p.sum() - 1) > 1e-9 or p.min() < -1e-15:
                    r.violation("base-row|%s|s=%s|h=%d|j=%d" % (tag, rows, h, j),
                                "row is not a distribution over the %d alleles: %r" % (na, p.tolist()), payload)
                # forcing each answer: genotype and returned llk
                dist = {}
                for c in range(na):
                    if c == cur:
                        g2, l2 = g1, llk1
                    else:
                        _, _, g2, l2 = kasm.base_row(inst, rows, h, j, F, T, force=c)
                        r.evaluations += 1
                    r.transitions += 1
                    want = [list(x) for x in rows]
                    want[h][j] = c
                    if g2.tolist() != want:
                        r.violation("base-effect|%s|s=%s|h=%d|j=%d|c=%d" % (tag, rows, h, j, c),
                                    "forcing answer %d produced genotype %r" % (c, g2.tolist()), payload)
                        continue
                    t = kasm.canon(g2)
                    lref = inst.llk(t)
                    if abs(l2 - lref) > 1e-9 * max(1.0, abs(lref)):
                        r.violation("base-llk|%s|s=%s|h=%d|j=%d|c=%d" % (tag, rows, h, j, c),
                                    "returned llk %.12g but reference llk of the new genotype is %.12g" % (l2, lref), payload)
                    dist[t] = dist.get(t, 0.0) + float(p[c])
                # equivariance: same haplotype content => same multiset-level move distribution
                key = rows[h]
                if key in per_hap:
                    d0 = per_hap[key]
                    dev = max(abs(d0.get(t, 0) - dist.get(t, 0)) for t in set(d0) | set(dist))
                    r.maxi("base_order_dependence", dev)
                    if dev > 1e-12:
                        r.violation("base-multiset|%s|s=%s|hap=%s|j=%d" % (tag, s, key, j),
                                    "move distribution of 'mutate a copy of %s at site %d' depends on the row order (max diff %.3g)" % (key, j, dev), payload)
                else:
                    per_hap[key] = dist
                r.outcome((tag, [round(x, 10) for x in p.tolist()]))
    # detailed balance on the ordered space w.r.t. pi_T(multiset)/perms(multiset)
    for (rows, h), p in rows_of.items():
        s = tuple(sorted(rows))
        cur = rows[h][j]
        for c in range(inst.n_alleles[j]):
            if c == cur:
                continue
            rows2 = tuple(tuple(c if (hh == h and jj == j) else v for jj, v in enumerate(row)) for hh, row in enumerate(rows))
            t = tuple(sorted(rows2))
            p_back = rows_of[(rows2, h)][cur]
            if p[c] <= 0 or p_back <= 0:
                if (p[c] > 0) != (p_back > 0):
                    r.violation("base-db|%s|s=%s|h=%d|j=%d|c=%d" % (tag, rows, h, j, c),
                                "one-way edge: K(g->g')=%g, K(g'->g)=%g" % (p[c], p_back), payload)
                continue
            lf = lp[s] - math.log(ref.perms(s)) + math.log(p[c])
            lb = lp[t] - math.log(ref.perms(t)) + math.log(p_back)
            r.maxi("base_db_log_dev", abs(lf - lb))
            if abs(lf - lb) > RTOL:
                r.violation("base-db|%s|s=%s|h=%d|j=%d|c=%d" % (tag, rows, h, j, c),
                            "detailed balance violated: log flow forward %.12g backward %.12g (K=%g, K_back=%g)" % (lf, lb, p[c], p_back), payload)
    # conformance with the compiled dispatcher: predicted outcome for one numba seed per (state, h)
    from mchap.assemble import mutation

    for si, s in enumerate(inst.states):
        for h in range(P):
            rows = s
            p = rows_of[(rows, h)]
            seed = 7 + 31 * si + h
            u = kasm.numba_uniform(seed)
            pred = kasm.predict_choice(p, u)
            if pred is None:
                r.count("conformance_ambiguous")
                continue
            g = kasm.as_array(rows)
            llk = kasm.jit_llk(inst, g)
            l2, _ = mutation.base_step(g, inst.reads, llk, h, j, inst.n_alleles[j], inst.luh, F, T, inst.counts, None)
            r.traces += 1
            if int(g[h, j]) != pred or abs(l2 - inst.llk(kasm.canon(g))) > 1e-9 * max(1, abs(l2)):
                r.violation("base-jit|%s|s=%s|h=%d|j=%d|seed=%d" % (tag, rows, h, j, seed),
                            "compiled base_step chose allele %d (llk %.10g); the model row %r with uniform %.6f predicts %d" % (int(g[h, j]), l2, p.tolist(), u, pred), payload)
    r.sample({"move": "base_step", "instance": inst.name(), "F": F, "T": T, "site": j, "state": inst.states[min(3, len(inst.states) - 1)],
              "row_h0": rows_of[(inst.states[min(3, len(inst.states) - 1)], 0)].tolist()}, cap=1)
    return r


# --------------------------------------------------------------------------- interval_step
def job_interval(job):
    _, spec, F, T, iv, st, _ = job
    inst = kasm.Instance(*spec)
    r = Result()
    payload = {"kind": "job", "job": job}
    tag = "%s|F=%g|T=%g|iv=%s|type=%d" % (inst.name(), F, T, iv, st)
    lp = {s: inst.log_pi(s, F, T) for s in inst.states}
    K = {}
    seam = {}
    for s in inst.states:
        r.states += 1
        if nontrivial_state(s):
            r.nontrivial += 1
        ref_row = None
        for rows in kasm.orders(s):
            outs, w = kasm.interval_rows(inst, rows, iv, st, F, T)
            r.evaluations += len(outs)
            row = {}
            tot = 0.0
            for k, (p, g, l1) in enumerate(outs):
                r.transitions += 1
                t = kasm.canon(g)
                tot += p
                if t not in inst.index:
                    r.violation("interval-effect|%s|s=%s" % (tag, rows), "successor %r is not a genotype of the instance" % (t,), payload)
                    continue
                if p < -1e-15:
                    r.violation("interval-row|%s|s=%s" % (tag, rows), "negative probability %g" % p, payload)
                lref = inst.llk(t)
                if abs(l1 - lref) > 1e-9 * max(1.0, abs(lref)):
                    r.violation("interval-llk|%s|s=%s|k=%d" % (tag, rows, k),
                                "returned llk %.12g but reference llk of the new genotype is %.12g" % (l1, lref), payload)
                if w is not None and k == len(outs) - 1 and t != s:
                    r.violation("interval-effect|%s|s=%s" % (tag, rows), "the reject slot changed the genotype", payload)
                if w is not None and k < len(outs) - 1 and t == s:
                    r.violation("interval-effect|%s|s=%s|k=%d" % (tag, rows, k), "a proposal option equals the current genotype", payload)
                row[t] = row.get(t, 0.0) + float(p)
            if abs(tot - 1) > 1e-9:
                r.violation("interval-row|%s|s=%s" % (tag, rows), "row sums to %.12g" % tot, payload)
            if w is not None:
                succ = [kasm.canon(g) for (_, g, _) in outs[:-1]]
                if len(set(succ)) != len(succ):
                    r.violation("interval-dup|%s|s=%s" % (tag, rows), "duplicate proposal options %r" % (succ,), payload)
            if ref_row is None:
                ref_row = row
                K[s] = row
                seam[s] = w
            else:
                dev = max(abs(ref_row.get(t, 0) - row.get(t, 0)) for t in set(ref_row) | set(row))
                r.maxi("interval_order_dependence", dev)
                if dev > 1e-12:
                    r.violation("interval-multiset|%s|s=%s|order=%s" % (tag, s, rows),
                                "move distribution depends on the row order of the genotype (max diff %.3g)" % dev, payload)
        r.outcome((tag, sorted((str(t), round(p, 10)) for t, p in K[s].items())))
    for s in inst.states:
        for t, p in K[s].items():
            if t == s:
                continue
            pb = K[t].get(s, 0.0)
            if p <= 0 or pb <= 0:
                if (p > 1e-300) != (pb > 1e-300):
                    r.violation("interval-db|%s|s=%s|t=%s" % (tag, s, t), "one-way edge: K(s,t)=%g K(t,s)=%g" % (p, pb), payload)
                continue
            lf = lp[s] + math.log(p)
            lb = lp[t] + math.log(pb)
            r.maxi("interval_db_log_dev", abs(lf - lb))
            if abs(lf - lb) > RTOL:
                r.violation("interval-db|%s|s=%s|t=%s" % (tag, s, t),
                            "detailed balance violated: log flow forward %.12g backward %.12g (K=%g, K_back=%g)" % (lf, lb, p, pb), payload)
    # conformance with the compiled dispatcher
    from mchap.assemble import structural

    ivn = None if iv is None else np.array(iv)
    for si, s in enumerate(inst.states):
        w = seam[s]
        g = kasm.as_array(s)
        llk = kasm.jit_llk(inst, g)
        seed = 11 + 13 * si
        if w is None:
            l2, _ = structural.interval_step(g, inst.reads, llk, inst.luh, F, ivn, st, T, inst.counts, None)
            ok = kasm.canon(g) == s
            pred_state = s
        else:
            u = kasm.numba_uniform(seed)
            pred = kasm.predict_choice(w, u)
            if pred is None:
                r.count("conformance_ambiguous")
                continue
            outs, _ = kasm.interval_rows(inst, s, iv, st, F, T)
            pred_state = kasm.canon(outs[pred][1])
            l2, _ = structural.interval_step(g, inst.reads, llk, inst.luh, F, ivn, st, T, inst.counts, None)
            ok = kasm.canon(g) == pred_state
        r.traces += 1
        if not ok or abs(l2 - inst.llk(kasm.canon(g))) > 1e-9 * max(1, abs(l2)):
            r.violation("interval-jit|%s|s=%s|seed=%d" % (tag, s, seed),
                        "compiled interval_step went to %r (llk %.10g); model predicts %r" % (kasm.canon(g), l2, pred_state), payload)
    s = inst.states[min(5, len(inst.states) - 1)]
    r.sample({"move": "interval_step", "type": st, "interval": iv, "instance": inst.name(), "F": F, "T": T, "state": s,
              "row": sorted((str(t), p) for t, p in K[s].items())}, cap=1)
    return r


# --------------------------------------------------------------------------- exchange
def job_swap(job):
    from mchap.assemble import tempering

    _, spec, F, ladder, _ = job
    inst = kasm.Instance(*spec)
    r = Result()
    payload = {"kind": "job", "job": job}
    tag = "%s|F=%g" % (inst.name(), F)
    lp1 = {s: inst.log_pi(s, F, 1.0) for s in inst.states}
    pairs = [(ladder[i + 1], ladder[i]) for i in range(len(ladder) - 1)]  # (cooler, warmer) as the orchestration passes them
    captured = {}
    real_acc = tempering.chain_swap_acceptance

    def acc(*a):
        with unpatched():
            v = real_acc(*a)
        captured["a"] = float(v)
        return v

    for si in inst.states:
        r.states += 1
        for sj in inst.states:
            if nontrivial_state(si) and si != sj:
                r.nontrivial += 1
            for (Ti, Tj) in pairs:
                want = min(1.0, math.exp((lp1[sj] - lp1[si]) * (Ti - Tj)))
                # learn the acceptance, then force both sides of the uniform
                for side in (0, 1):
                    gi = kasm.as_array(si if side == 0 else tuple(reversed(si)))
                    gj = kasm.as_array(sj)
                    li = kasm.jit_llk(inst, gi)
                    lj = kasm.jit_llk(inst, gj)
                    gi0, gj0 = gi.copy(), gj.copy()
                    val = want / 2 if side == 0 else (1 + want) / 2
                    if side == 1 and want >= 1.0:
                        continue
                    o = Oracle([0], rand_values=(val,))
                    with patched((tempering, "np", NumpyProxy(o)), (tempering, "chain_swap_acceptance", acc)):
                        ni, nj = tempering.chain_swap_step.py_func(gi, li, Ti, gj, lj, Tj, inst.luh, F)
                    r.evaluations += 1
                    r.transitions += 1
                    a = captured["a"]
                    r.maxi("swap_acceptance_dev", abs(a - want))
                    if abs(a - want) > 1e-9 * max(want, 1e-300) + 1e-300:
                        r.violation("swap-acc|%s|si=%s|sj=%s|Ti=%g|Tj=%g" % (tag, si, sj, Ti, Tj),
                                    "acceptance %.12g, reference min(1,(pi(sj)/pi(si))^(Ti-Tj)) = %.12g" % (a, want), payload)
                    if len([e for e in o.log if e[0] == "rand"]) != 1:
                        r.violation("swap-seam|%s" % tag, "expected exactly one uniform draw, log %r" % (o.log,), payload)
                    accepted = side == 0
                    if accepted:
                        ok = np.array_equal(gi, gj0) and np.array_equal(gj, gi0) and ni == lj and nj == li
                    else:
                        ok = np.array_equal(gi, gi0) and np.array_equal(gj, gj0) and ni == li and nj == lj
                    if not ok:
                        r.violation("swap-effect|%s|si=%s|sj=%s|Ti=%g|Tj=%g|accepted=%s" % (tag, si, sj, Ti, Tj, accepted),
                                    "genotypes / likelihoods not exchanged together: gi=%r gj=%r llks=(%r,%r) from (%r,%r)" % (gi.tolist(), gj.tolist(), ni, nj, li, lj), payload)
                    r.outcome((tag, Ti, Tj, round(a, 10)))
    # compiled conformance on a diagonal slice of pairs
    n = len(inst.states)
    for k in range(n):
        si, sj = inst.states[k], inst.states[(k * 7 + 3) % n]
        Ti, Tj = pairs[k % len(pairs)]
        want = min(1.0, math.exp((lp1[sj] - lp1[si]) * (Ti - Tj)))
        seed = 100 + k
        u = _numba_rand(seed)
        if abs(u - want) < 1e-9:
            continue
        gi, gj = kasm.as_array(si), kasm.as_array(sj)
        li, lj = kasm.jit_llk(inst, gi), kasm.jit_llk(inst, gj)
        ni, nj = tempering.chain_swap_step(gi, li, Ti, gj, lj, Tj, inst.luh, F)
        r.traces += 1
        swapped = kasm.canon(gi) == sj and kasm.canon(gj) == si and (si != sj)
        if si != sj and swapped != (want >= u):
            r.violation("swap-jit|%s|si=%s|sj=%s|seed=%d" % (tag, si, sj, seed),
                        "compiled chain_swap_step swapped=%s but acceptance %.6g vs uniform %.6g" % (swapped, want, u), payload)
    r.sample({"move": "chain_swap_step", "instance": inst.name(), "F": F, "ladder": ladder, "pairs_per_state": len(inst.states)}, cap=1)
    return r


_rand_peek = None


def _numba_rand(seed):
    """first np.random.rand() of numba's RNG after seeding (rand and random share the stream)"""
    global _rand_peek
    from mchap.jitutils import seed_numba
    import numba

    if _rand_peek is None:
        @numba.njit
        def peek():
            return np.random.rand()

        _rand_peek = peek
    seed_numba(seed)
    u = _rand_peek()
    seed_numba(seed)
    return u


# --------------------------------------------------------------------------- irreducibility
def job_irreducible(job):
    _, spec, F, T, _ = job
    inst = kasm.Instance(*spec)
    r = Result()
    payload = {"kind": "job", "job": job}
    adj = {s: set() for s in inst.states}
    for s in inst.states:
        r.states += 1
        for h in range(inst.ploidy):
            for j in range(inst.n_base):
                p, a, g, _ = kasm.base_row(inst, s, h, j, F, T)
                r.evaluations += 1
                for c in range(len(p)):
                    if p[c] > 0 and c != s[h][j]:
                        rows = [list(x) for x in s]
                        rows[h][j] = c
                        t = kasm.canon(rows)
                        adj[s].add(t)
                        r.transitions += 1
    seen = {inst.states[0]}
    todo = [inst.states[0]]
    while todo:
        x = todo.pop()
        for y in adj[x]:
            if y not in seen:
                seen.add(y)
                todo.append(y)
    r.nontrivial += len(seen)
    if len(seen) != len(inst.states):
        r.violation("irreducible|%s|F=%g" % (inst.name(), F),
                    "only %d of %d genotypes reachable by mutation moves" % (len(seen), len(inst.states)), payload)
    # symmetric support
    for s in inst.states:
        for t in adj[s]:
            if s not in adj[t]:
                r.violation("irreducible-sym|%s|F=%g|s=%s|t=%s" % (inst.name(), F, s, t), "edge without a return edge", payload)
    r.outcome((inst.name(), len(seen)))
    return r


# --------------------------------------------------------------------------- orchestration
def job_orch(job):
    """_denovo_assembler.py_func with the moves replaced by recording stubs; every gate / swap answer
    sequence is enumerated and compared with a reference of the documented loop."""
    import mchap.assemble.mcmc as mc

    _, n_temps, steps, heated, _ = job
    r = Result()
    payload = {"kind": "job", "job": job}
    temps = np.array([[1.0], [0.5, 1.0], [0.25, 0.5, 1.0]][n_temps - 1])
    ploidy, n_base = 2, 3
    g_init = np.array([[0, 0, 0], [1, 1, 1]], np.int8)
    reads = np.array([[[0.9, 0.1, 0.0], [0.2, 0.7, 0.1], [0.5, 0.5, 0.0]]])
    n_alleles = np.array([2, 3, 2], np.int8)  # mixed allele counts: prod != max ** n
    from mchap.assemble.likelihood import log_likelihood

    rc_token = np.array([2])
    llk0 = float(log_likelihood(reads, g_init, rc_token))
    break_dist = np.array([0.0, 1.0, 0.0])  # always one break
    gates = (0.5, 0.5, 0.5)

    def run(o):
        calls = []

        def mut(**kw):
            g = kw["genotype"]
            calls.append(("mut", float(kw["temp"]), float(kw["llk"]), g.tolist(), float(kw.get("log_unique_haplotypes", -1)), float(kw.get("inbreeding", -1)), kw["n_alleles"].tolist(),
                          kw.get("read_counts", "MISSING") is rc_token, kw.get("reads") is reads))
            g[0, 0] = (g[0, 0] + 1) % 100
            return kw["llk"] * 1.5 + 1.0, kw["cache"]

        def strc(**kw):
            g = kw["genotype"]
            calls.append(("str", int(kw["step_type"]), float(kw["temp"]), float(kw["llk"]), g.tolist(), np.asarray(kw["intervals"]).tolist(),
                          float(kw.get("log_unique_haplotypes", -1)), float(kw.get("inbreeding", -1)), kw.get("read_counts", "MISSING") is rc_token, kw.get("reads") is reads))
            g[1, 1 + int(kw["step_type"])] = (g[1, 1 + int(kw["step_type"])] + 1) % 100
            return kw["llk"] * 1.25 + 10.0 + kw["step_type"], kw["cache"]

        def breaks(n_breaks, n):
            calls.append(("breaks", int(n_breaks), int(n)))
            return np.array([[0, 1], [1, n]])

        def swap(**kw):
            calls.append(("swap", float(kw["temp_i"]), float(kw["temp_j"]), float(kw["llk_i"]), float(kw["llk_j"]),
                          kw["genotype_i"].tolist(), kw["genotype_j"].tolist(), float(kw.get("log_unique_haplotypes", -1)), float(kw.get("inbreeding", -1))))
            if o.rand() < 0.5:
                gi = kw["genotype_i"].copy()
                kw["genotype_i"][:] = kw["genotype_j"]
                kw["genotype_j"][:] = gi
                return kw["llk_j"], kw["llk_i"]
            return kw["llk_i"], kw["llk_j"]

        with patched(
            (mc, "np", NumpyProxy(o)),
            (mc, "mutation", types.SimpleNamespace(compound_step=mut)),
            (mc, "structural", types.SimpleNamespace(compound_step=strc, random_breaks=breaks)),
            (mc, "chain_swap_step", swap),
            (mc, "random_choice", o.random_choice),
        ):
            gt, lt = mc._denovo_assembler.py_func(
                genotype=g_init.copy(), inbreeding=0.25, reads=reads, read_counts=rc_token, n_alleles=n_alleles, steps=steps,
                break_dist=break_dist, recombination_step_probability=gates[0], partial_dosage_step_probability=gates[1],
                dosage_step_probability=gates[2], temperatures=temps, return_heated_trace=heated, llk_cache_threshold=-1,
            )
        return calls, gt, lt

    def reference(answers):
        """the documented loop, driven by the same answers (a list consumed in order)"""
        it = iter(answers)
        calls = []
        gs = [g_init.copy() for _ in range(n_temps)]
        ls = [llk0] * n_temps
        luh = float(np.log(n_alleles).sum())
        gtr, ltr = [], []
        for i in range(steps):
            for t in range(n_temps):
                T = float(temps[t])
                calls.append(("mut", T, ls[t], gs[t].tolist(), luh, 0.25, n_alleles.tolist(), True, True))
                gs[t][0, 0] = (gs[t][0, 0] + 1) % 100
                ls[t] = ls[t] * 1.5 + 1.0
                for gate, st in ((0, 0), (1, 1)):
                    if next(it) == 0:  # uniform 0.0 <= p
                        nb = next(it)
                        calls.append(("breaks", nb, n_base))
                        calls.append(("str", st, T, ls[t], gs[t].tolist(), [[0, 1], [1, n_base]], luh, 0.25, True, True))
                        gs[t][1, 1 + st] = (gs[t][1, 1 + st] + 1) % 100
                        ls[t] = ls[t] * 1.25 + 10.0 + st
                if next(it) == 0:
                    calls.append(("str", 1, T, ls[t], gs[t].tolist(), [[0, n_base]], luh, 0.25, True, True))
                    gs[t][1, 2] = (gs[t][1, 2] + 1) % 100
                    ls[t] = ls[t] * 1.25 + 11.0
                if t > 0:
                    calls.append(("swap", T, float(temps[t - 1]), ls[t], ls[t - 1], gs[t].tolist(), gs[t - 1].tolist(), luh, 0.25))
                    if next(it) == 0:
                        gs[t], gs[t - 1] = gs[t - 1], gs[t]
                        ls[t], ls[t - 1] = ls[t - 1], ls[t]
            if heated:
                gtr.append([g.tolist() for g in gs])
                ltr.append(list(ls))
            else:
                gtr.append([gs[-1].tolist()])
                ltr.append([ls[-1]])
        # to (chain, step) layout
        G = [[gtr[i][c] for i in range(steps)] for c in range(len(gtr[0]))]
        L = [[ltr[i][c] for i in range(steps)] for c in range(len(ltr[0]))]
        return calls, G, L

    n = 0
    for o, (calls, gt, lt) in explore(run, rand_values=(0.0, 0.999999)):
        n += 1
        r.evaluations += 1
        r.transitions += len(calls)
        answers = [e[2] for e in o.log]
        want_calls, G, L = reference(answers)
        r.outcome(str(answers))
        ok = (calls == want_calls) and gt.tolist() == G and np.allclose(lt, np.array(L), rtol=0, atol=0)
        if not ok:
            first = next((i for i, (a, b) in enumerate(zip(calls, want_calls)) if a != b), min(len(calls), len(want_calls)))
            r.violation("orchestration|temps=%d|steps=%d|heated=%s|call=%s" % (n_temps, steps, heated, (want_calls[first][0] if first < len(want_calls) else "trace")),
                        "answers %r: call %d is %r, reference loop expects %r; trace equal=%s" % (
                            answers, first, calls[first] if first < len(calls) else None,
                            want_calls[first] if first < len(want_calls) else None, gt.tolist() == G), payload)
    r.states += n
    r.nontrivial += n
    r.sample({"orchestration": True, "temperatures": temps.tolist(), "steps": steps, "answer_sequences": n}, cap=1)
    return r
