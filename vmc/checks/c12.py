"""C12  Haplotype encode/decode round-trips; assemble output is valid call input."""
import itertools
import os

import numpy as np

from ..result import Result
from .. import env, stddata, synth, vcfparse

META = {
    "level": "exploration",
    "rule": "records: REF in {AAA, ACA} (thorough: + length 4) x every ordered set of <= K distinct ALT strings of the same length over {A,C,G,T} x REFMASKED on/off, read "
    "back through pysam; round trip LocusPrior.from_variant_record -> encode_haplotypes -> format_haplotypes; pipeline: every assemble output of the standard data set "
    "family (thresholds 0.2 / 0.9 / 1.0: REFMASKED, ALT-less with SNVs, SNV-less, NOA, '.' alleles, > 2 ALT) -> bgzip/tabix -> call, call-exact; "
    "non-trivial = record with >= 1 ALT",
    "bound": {"quick": "length 3, K=2 (all 15,880 records) + K=3 on every 5th ordered triple for REF=ACA; 3 assemble outputs x {call, call-exact} x {default, --prior-frequencies AFP}",
              "thorough": "K=3 complete; length-4 REF ACGA with K=2"},
    "assumptions": ["ALT-less records are written as text and read back (VariantHeader.new_record refuses fewer than two alleles)"],
    "trusted_base": ["pysam VCF reader"],
}

BASES = "ACGT"


def warm(tier):
    env.quiet()
    import mchap.application.call_exact  # noqa

    env.quiet()


def plan(tier, seed):
    jobs = []
    refs = ["AAA", "ACA"] + (["ACGA"] if tier == "thorough" else [])
    for ref in refs:
        for masked in (0, 1):
            nch = 8 if len(ref) == 3 else 64
            for ch in range(nch):
                jobs.append(("records", ref, 2, masked, ch, nch, 1, 4000))
    for masked in (0, 1):
        for ch in range(32):
            jobs.append(("records", "ACA", 3, masked, ch, 32, 5 if tier == "quick" else 1, 8000))
    for thr in ("0.2", "0.9", "1.0"):
        for prog in ("call", "call-exact"):
            jobs.append(("pipe", thr, prog, seed, 30000))
    jobs.sort(key=lambda j: -j[-1])
    return jobs


def run_job(job):
    env.quiet()
    return {"records": job_records, "pipe": job_pipe}[job[0]](job)


def job_records(job):
    import pysam
    from mchap.io.loci import LocusPrior

    _, ref, K, masked, ch, nch, stride, _ = job
    r = Result()
    payload = {"kind": "job", "job": job}
    n = len(ref)
    cands = ["".join(t) for t in itertools.product(BASES, repeat=n) if "".join(t) != ref]
    d = env.scratch_dir("c12")
    path = os.path.join(str(d), "recs.vcf")
    combos = []
    k = -1
    for size in ((0, 1, 2) if K == 2 else (3,)):
        for alts in itertools.permutations(cands, size):
            k += 1
            if k % nch != ch:
                continue
            if (k // nch) % stride:
                continue
            combos.append(alts)
    with open(path, "w") as f:
        f.write("##fileformat=VCFv4.3\n##contig=<ID=chr1,length=1000>\n")
        f.write('##INFO=<ID=REFMASKED,Number=0,Type=Flag,Description="m">\n##INFO=<ID=SNVPOS,Number=.,Type=Integer,Description="p">\n')
        f.write("#CHROM\tPOS\tID\tREF\tALT\tQUAL\tFILTER\tINFO\n")
        for i, alts in enumerate(combos):
            f.write("chr1\t%d\tr%d\t%s\t%s\t.\t.\t%s\n" % (100, i, ref, ",".join(alts) if alts else ".", "REFMASKED" if masked else "."))
    with pysam.VariantFile(path) as vf:
        for rec, alts in zip(vf, combos):
            strings = (ref,) + tuple(alts)
            r.evaluations += 1
            if alts:
                r.nontrivial += 1
            tag = "REF=%s|ALT=%s|masked=%d" % (ref, ",".join(alts) or ".", masked)
            try:
                locus = LocusPrior.from_variant_record(rec)
                haps = locus.encode_haplotypes()
                back = tuple(locus.format_haplotypes(haps))
            except Exception as e:  # noqa
                r.violation("roundtrip-exception|%s" % type(e).__name__, "%s: %s (%s)" % (type(e).__name__, e, tag), payload)
                continue
            if back != strings:
                r.violation("roundtrip|REF=%s|n_alt=%d" % (ref, len(alts)), "decode(encode(x)) = %r, x = %r (%s)" % (back, strings, tag), payload)
                continue
            poly = [j for j in range(n) if len({s[j] for s in strings}) > 1]
            got_pos = [p - locus.start for p in locus.positions]
            if got_pos != poly:
                r.violation("positions|REF=%s" % ref, "recovered SNV offsets %r, polymorphic columns %r (%s)" % (got_pos, poly, tag), payload)
                continue
            # allele numbering by first appearance with REF = 0
            want = []
            for s in strings:
                row = []
                for j in poly:
                    order = []
                    for t in strings:
                        if t[j] not in order:
                            order.append(t[j])
                    row.append(order.index(s[j]))
                want.append(row)
            if np.asarray(haps).tolist() != want:
                r.violation("numbering|REF=%s" % ref, "integer alleles %r, first-appearance numbering %r (%s)" % (np.asarray(haps).tolist(), want, tag), payload)
            if haps.shape[0] and np.asarray(haps)[0].any():
                r.violation("ref-not-zero|REF=%s" % ref, "reference haplotype encodes to %r (%s)" % (np.asarray(haps)[0].tolist(), tag), payload)
            if locus.sequence != ref or tuple(locus.alts) != tuple(alts) or bool(locus.mask_reference_allele) != bool(masked):
                r.violation("fields|REF=%s" % ref, "locus sequence/alts/mask %r %r %r (%s)" % (locus.sequence, locus.alts, locus.mask_reference_allele, tag), payload)
            # use_snvpos variant must agree when SNVPOS lists exactly the polymorphic columns
            r.outcome((ref, len(alts), tuple(poly)))
    os.remove(path)
    r.sample({"records": "REF=%s, <=%d ALT, masked=%d" % (ref, K, masked), "n_records_in_chunk": len(combos)})
    return r


def job_pipe(job):
    _, thr, prog, seed, _ = job
    r = Result()
    payload = {"kind": "job", "job": job}
    d = env.scratch_dir("c12p")
    D = stddata.Data(d)
    asm = stddata.run(D.assemble_args(report=["AFP"], extra=["--haplotype-posterior-threshold", thr]))
    env.quiet()
    hv = D.save_vcf(asm, "asm.vcf")
    ah, asamples, arecs = vcfparse.parse(asm)
    shapes = set()
    for a in arecs:
        shapes.add(("REFMASKED" in a["info"], len(a["alt"]) > 0, str(a["info"].get("NVAR")), a["filter"]))
    for extra_name, extra in (("default", []), ("prior-AFP", ["--prior-frequencies", "AFP"])):
        tag0 = "thr=%s|%s|%s" % (thr, prog, extra_name)
        try:
            out = stddata.run(D.call_args(prog, hv, extra=extra))
        except Exception as e:  # noqa
            e = synth.root_cause(e)
            r.violation("pipe-exception|%s|%s" % (prog, type(e).__name__), "%s on assemble output: %s: %s (%s)" % (prog, type(e).__name__, str(e)[:200], tag0), payload)
            env.quiet()
            continue
        env.quiet()
        h, samples, recs = vcfparse.parse(out)
        if len(recs) != len(arecs):
            r.violation("pipe-records|%s" % prog, "%d records out for %d assemble records (%s)" % (len(recs), len(arecs), tag0), payload)
            continue
        for a, c in zip(arecs, recs):
            r.evaluations += 1
            if a["alt"]:
                r.nontrivial += 1
            tag = "%s|%s:%d %s" % (tag0, a["chrom"], a["pos"], a["id"])
            if (c["chrom"], c["pos"], c["ref"], c["alt"]) != (a["chrom"], a["pos"], a["ref"], a["alt"]):
                r.violation("pipe-alleles|%s" % prog, "CHROM/POS/REF/ALT changed: %r -> %r (%s)" % ((a["chrom"], a["pos"], a["ref"], a["alt"]), (c["chrom"], c["pos"], c["ref"], c["alt"]), tag), payload)
                continue
            apos = [] if a["info"].get("SNVPOS") in (None, ["."]) else [int(x) for x in a["info"]["SNVPOS"]]
            cpos = [] if c["info"].get("SNVPOS") in (None, ["."]) else [int(x) for x in c["info"]["SNVPOS"]]
            strings = [a["ref"]] + a["alt"]
            poly = [j + 1 for j in range(len(a["ref"])) if len({s[j] for s in strings}) > 1]
            if cpos != poly or not set(cpos) <= set(apos):
                r.violation("pipe-snvpos|%s" % prog, "recovered SNVPOS %r, polymorphic subset of assemble's %r is %r (%s)" % (cpos, apos, poly, tag), payload)
            filt = set(c["filter"].split(";"))
            incomplete = [s for s, smp in zip(samples, c["samples"]) if "." in vcfparse.gt_alleles(smp["GT"])]
            if incomplete and not (filt & {"NOA", "AF0"}):
                r.violation("pipe-incomplete-gt|%s" % prog, "samples %r have '.' alleles but FILTER is %s (%s)" % (incomplete, c["filter"], tag), payload)
            if ("REFMASKED" in a["info"]) != ("REFMASKED" in c["info"]):
                r.violation("pipe-refmasked|%s" % prog, "REFMASKED %s -> %s (%s)" % ("REFMASKED" in a["info"], "REFMASKED" in c["info"], tag), payload)
            if "REFMASKED" in c["info"]:
                for s, smp in zip(samples, c["samples"]):
                    if "0" in vcfparse.gt_alleles(smp["GT"]):
                        r.violation("pipe-masked-ref-called|%s" % prog, "sample %s GT %s uses the masked reference (%s)" % (s, smp["GT"], tag), payload)
            for rule, detail in vcfparse.check_record(h, samples, c, stddata.PLOIDY):
                r.violation("pipe-wellformed|%s|%s" % (prog, rule), "%s (%s)" % (detail, tag), payload)
            r.outcome((thr, prog, extra_name, a["id"], c["filter"], tuple(s["GT"] for s in c["samples"])))
    r.count("assemble_record_shapes", len(shapes))
    r.sample({"pipeline": "assemble(thr=%s) -> %s" % (thr, prog), "assemble_record_shapes": sorted(map(str, shapes))})
    return r
