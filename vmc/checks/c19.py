"""C19  find-snvs depths equal the filtered pileup; thresholds applied as documented."""
import contextlib
import io
import itertools
import os

import numpy as np

from ..result import Result
from .. import env, synth
from ..synth import REF

META = {
    "level": "exploration",
    "rule": "depths: all BAMs of <= R reads over flag {plain,dup,qcfail,supp} x MAPQ {0,19,20,60} x base {A,C,G,T} (M-only, base quality 30, unpaired) x "
    "all 2^3 keep flags x --mapping-quality {0,20}, every position of the window compared with the filtered count; thresholds: write_vcf_block with "
    "every depth tensor (1-2 positions x 1-2 samples x depths from {0,1,3,10}) x threshold sets; the CLI main() for every keep-flag combination; "
    "non-trivial = at least one read / at least one allele with depth",
    "bound": {"quick": "<=2 reads per BAM (2144 BAMs x 16 configurations); depth tensors: 1x1 full {0,1,3,10}^4, 1x2 and 2x1 over vectors from {0,3,10} with <=2 non-zero entries (+4 mixed); 96 threshold sets",
              "thorough": "<=3 reads (base restricted to {A,C} for the third read); 2 positions x 2 samples on a reduced depth grid"},
    "assumptions": ["pysam's pileup engine is trusted; the alphabet avoids its own base-quality / orphan / overlap rules (quality 30, unpaired, M-only)",
                    "with --maf > 0 the code's NaN rule for samples without reads is followed (population frequency undefined by the property); noted, not flagged",
                    "secondary / unmapped alignments are outside the alphabet"],
    "trusted_base": ["pysam pileup", "vmc/synth BAM writer"],
}

CONTIG = "chr1"
RSEQ = REF[CONTIG]
W0, W1 = 8, 26  # window queried
SITE = 15
FLAGS = {"plain": 0, "dup": 0x400, "qcfail": 0x200, "supp": 0x800}
MAPQS = [0, 19, 20, 60]
BASES = "ACGT"


def letters():
    out = []
    for fname, fl in FLAGS.items():
        for mq in MAPQS:
            for b in BASES:
                out.append((fname, fl, mq, b))
    return out


def mk(i, letter):
    fname, fl, mq, b = letter
    pos = 10 + 2 * (i % 3)
    seq = list(RSEQ[pos:pos + 10])
    seq[SITE - pos] = b
    return dict(name="r%d" % i, contig=CONTIG, pos=pos, cigar=[("M", 10)], seq="".join(seq), flag=fl, mapq=mq, rg="rg1")


def warm(tier):
    env.quiet()
    from mchap.application import find_snvs  # noqa

    d = env.scratch_dir("c19w")
    fa = synth.write_ref(str(d))
    p = synth.write_bam(os.path.join(str(d), "w.bam"), [("rg1", "S1")], [mk(0, ("plain", 0, 60, "A"))])
    find_snvs.bam_region_depths([p], fa, CONTIG, W0, W1)
    env.quiet()


def plan(tier, seed):
    jobs = []
    L = letters()
    combos = len(L) + len(L) * (len(L) + 1) // 2
    nch = 48
    for ch in range(nch):
        jobs.append(("depth", 2 if tier == "quick" else 3, ch, nch, combos // nch))
    for shape in ([(1, 1), (1, 2), (2, 1)] if tier == "quick" else [(1, 1), (1, 2), (2, 1), (2, 2)]):
        nchunk = {(1, 1): 4, (1, 2): 48, (2, 1): 16, (2, 2): 64}[shape]
        for ch in range(nchunk):
            jobs.append(("thr", shape, ch, nchunk, seed, 5000 if tier == "quick" else 5001))
    jobs.append(("cli", seed, 3000))
    for ch in range(8):
        jobs.append(("thr", "neartie", ch, 8, seed, 4000))
    jobs.sort(key=lambda j: -j[-1])
    return jobs


def run_job(job):
    env.quiet()
    return {"depth": job_depth, "thr": job_thr, "cli": job_cli}[job[0]](job)


def counted(a, mq, sd, sq, ss):
    f = a["flag"]
    if a["mapq"] < mq:
        return False
    if (f & 0x400) and sd:
        return False
    if (f & 0x200) and sq:
        return False
    if (f & 0x800) and ss:
        return False
    return True


def want_depth(aligns, mq, sd, sq, ss):
    d = np.zeros((W1 - W0, 1, 4), np.int64)
    for a in aligns:
        if not counted(a, mq, sd, sq, ss):
            continue
        for k, b in enumerate(a["seq"]):
            p = a["pos"] + k
            if W0 <= p < W1 and b in BASES:
                d[p - W0, 0, BASES.index(b)] += 1
    return d


def job_depth(job):
    from mchap.application import find_snvs

    _, maxr, ch, nch, _ = job
    r = Result()
    payload = {"kind": "job", "job": job}
    d = env.scratch_dir("c19")
    fa = synth.write_ref(str(d))
    L = letters()
    combos = [c for k in range(1, 3) for c in itertools.combinations_with_replacement(range(len(L)), k)]
    if maxr >= 3:
        third = [i for i, l in enumerate(L) if l[3] in "AC"]
        combos += [c + (t,) for c in itertools.combinations_with_replacement(range(len(L)), 2) for t in third if t >= c[1]]
    cfgs = [(mq, sd, sq, ss) for mq in (0, 20) for sd in (True, False) for sq in (True, False) for ss in (True, False)]
    for ci, combo in enumerate(combos):
        if ci % nch != ch:
            continue
        aligns = [mk(i, L[k]) for i, k in enumerate(combo)]
        path = os.path.join(str(d), "b%d.bam" % ci)
        synth.write_bam(path, [("rg1", "S1")], aligns)
        for (mq, sd, sq, ss) in cfgs:
            got = find_snvs.bam_region_depths([path], fa, CONTIG, W0, W1, dtype=np.int64, min_quality=mq, skip_duplicates=sd,
                                              skip_qcfail=sq, skip_supplementary=ss)
            want = want_depth(aligns, mq, sd, sq, ss)
            r.evaluations += 1
            if want.sum() > 0:
                r.nontrivial += 1
            if not np.array_equal(got, want):
                pos = int(np.argwhere((got != want).any(axis=(1, 2)))[0][0]) + W0
                r.violation("depth|reads=%s|mq=%d|skipdup=%s|skipqc=%s|skipsupp=%s" % ([L[k][:3] for k in combo], mq, sd, sq, ss),
                            "depths at position %d are %r, reads passing the configured filters give %r" % (pos + 1, got[pos - W0, 0].tolist(), want[pos - W0, 0].tolist()), payload)
            r.outcome((combo, mq, sd, sq, ss, want[SITE - W0, 0].tolist()))
        os.remove(path)
        os.remove(path + ".bai")
        if not r.samples and len(combo) == 2:
            r.sample({"reads": [[a["name"], a["pos"], a["flag"], a["mapq"], a["seq"][SITE - a["pos"]]] for a in aligns],
                      "depth_at_site_default": want_depth(aligns, 20, True, True, False)[SITE - W0, 0].tolist()})
    return r


# --------------------------------------------------------------------------- thresholds
def expected_records(depth, positions, refidx, ind_maf, ind_mad, min_ind, maf, mad):
    """depth: (n_pos, n_samples, 4). Returns list of dict(pos, ref, alts(list of sets for ties), refmasked, ad)"""
    out = []
    notes = 0
    with np.errstate(divide="ignore", invalid="ignore"):
        freq = depth / depth.sum(axis=-1, keepdims=True)
    for i in range(depth.shape[0]):
        listed = []
        for a in range(4):
            n_ind = sum(1 for s in range(depth.shape[1]) if (not np.isnan(freq[i, s, a])) and freq[i, s, a] >= ind_maf and depth[i, s, a] >= ind_mad)
            ok = n_ind >= min_ind
            if maf > 0.0:
                m = np.mean(freq[i, :, a])  # NaN as soon as one sample has no reads (the code's rule; undefined by the property)
                if np.isnan(m):
                    notes += 1
                ok = ok and (not np.isnan(m)) and m >= maf
            if mad > 0:
                ok = ok and depth[i, :, a].sum() >= mad
            listed.append(ok)
        if sum(listed) < 2:
            continue
        ref = int(refidx[i])
        fz = np.where(np.array(listed)[None, :], freq[i], 0.0)
        with np.errstate(invalid="ignore"):
            import warnings

            with warnings.catch_warnings():
                warnings.simplefilter("ignore")
                mf = np.nanmean(fz, axis=0)
        alts = [a for a in range(4) if listed[a] and a != ref]
        out.append(dict(pos=positions[i], ref=ref, alts=alts, mf=mf, refmasked=not listed[ref], depth=depth[i]))
    return out, notes


def job_thr(job):
    from mchap.application import find_snvs

    neartie = job[1] == "neartie"
    payload = {"kind": "job", "job": job}
    if neartie:
        job = (job[0], (1, 2)) + tuple(job[2:])
    _, (npos, nsamp), ch, nchunk, seed, _ = job
    r = Result()
    d = env.scratch_dir("c19t")
    fa = synth.write_ref(str(d))
    grid = [0, 1, 3, 10]
    start = 20
    refseq = RSEQ[start:start + npos]
    refidx = [BASES.index(b) for b in refseq]
    tier_full = job[-1] == 5001
    if (npos, nsamp) == (1, 1):
        vecs = list(itertools.product(grid, repeat=4))
    elif (npos, nsamp) == (2, 2):
        vecs = [v for v in itertools.product([0, 3, 10], repeat=4) if sum(1 for x in v if x) <= 1] + [(3, 10, 0, 0), (10, 0, 3, 0), (0, 3, 3, 1)]
    elif tier_full:
        vecs = list(itertools.product([0, 3, 10], repeat=4)) + [(1, 3, 1, 3), (1, 1, 3, 0), (0, 1, 0, 10)]
    elif (npos, nsamp) == (1, 2):
        # two samples: the individual thresholds must be met by the *same* individual -> needs the small depth 1 as well
        vecs = [v for v in itertools.product(grid, repeat=4) if sum(1 for x in v if x) <= 2] + [(1, 3, 1, 3), (1, 1, 3, 0), (3, 10, 3, 0), (0, 3, 1, 1)]
    else:
        vecs = [v for v in itertools.product([0, 3, 10], repeat=4) if sum(1 for x in v if x) <= 2] + [(1, 3, 1, 3), (1, 1, 3, 0), (3, 10, 3, 0), (0, 3, 1, 1)]
    cells = npos * nsamp
    if neartie:
        # two ALT alleles whose mean sample frequencies differ by less than the printed precision (or tie exactly)
        tensors = []
        ref_b = refidx[0]
        others = [a for a in range(4) if a != ref_b]
        for n1 in range(100, 121, 2):
            for n2 in range(100, 121):
                for (a1, a2) in ((others[0], others[2]), (others[2], others[0]), (others[1], others[2])):
                    v1 = [0, 0, 0, 0]
                    v2 = [0, 0, 0, 0]
                    v1[ref_b], v1[a1] = n1, 15
                    v2[ref_b], v2[a2] = n2, 15
                    tensors.append((tuple(v1), tuple(v2)))
        thr_override = [(0.1, 3, 1, 0.0, 0), (0.0, 0, 1, 0.0, 0)]
    elif cells == 1:
        tensors = [(v,) for v in vecs]
    elif cells == 2:
        tensors = list(itertools.product(vecs, repeat=2))
    else:
        tensors = list(itertools.product(vecs, repeat=4))
    thr_sets = [(im, iad, mi, mf, md) for im in (0.0, 0.1, 0.5) for iad in (0, 3) for mi in (1, 2) for mf in (0.0, 0.2) for md in (0, 5)]
    thr_sets = [t for t in thr_sets if t[2] <= nsamp or t[2] == 2]
    if neartie:
        thr_sets = thr_override
    bam_paths = ["s%d.bam" % i for i in range(nsamp)]
    real = find_snvs.bam_region_depths
    for ti, tens in enumerate(tensors):
        if ti % nchunk != ch:
            continue
        depth = np.array(tens, np.int64).reshape(npos, nsamp, 4)
        find_snvs.bam_region_depths = lambda *a, **k: depth.copy()
        try:
            for (im, iad, mi, mf, md) in thr_sets:
                buf = io.StringIO()
                r.evaluations += 1
                if depth.sum() > 0:
                    r.nontrivial += 1
                tag = "depth=%s|ind_maf=%g|ind_mad=%d|min_ind=%d|maf=%g|mad=%d" % (depth.tolist(), im, iad, mi, mf, md)
                try:
                    with contextlib.redirect_stdout(buf):
                        find_snvs.write_vcf_block(CONTIG, start, start + npos, fa, bam_paths, maf=mf, mad=md, ind_maf=im, ind_mad=iad, min_ind=mi,
                                                  mapping_quality=20, skip_duplicates=True, skip_qcfail=True, skip_supplementary=False)
                except Exception as e:  # noqa
                    r.violation("thr-exception|%s" % type(e).__name__, "%s: %s (%s)" % (type(e).__name__, e, tag), payload)
                    continue
                env.quiet()
                want, notes = expected_records(depth, list(range(start, start + npos)), refidx, im, iad, mi, mf, md)
                if notes:
                    r.count("maf_with_empty_sample_cases")
                lines = [l for l in buf.getvalue().splitlines() if l]
                if len(lines) != len(want):
                    r.violation("thr-emitted|ind_maf=%g|ind_mad=%d|min_ind=%d|maf=%g|mad=%d" % (im, iad, mi, mf, md),
                                "emitted positions %r, expected %r (%s)" % ([l.split("\t")[1] for l in lines], [w["pos"] + 1 for w in want], tag), payload)
                    continue
                for l, w in zip(lines, want):
                    f = l.split("\t")
                    bad = []
                    if int(f[1]) != w["pos"] + 1 or f[3] != BASES[w["ref"]]:
                        bad.append("POS/REF %s/%s, expected %d/%s" % (f[1], f[3], w["pos"] + 1, BASES[w["ref"]]))
                    alts = [] if f[4] in (".", "") else f[4].split(",")
                    if sorted(alts) != sorted(BASES[a] for a in w["alts"]):
                        bad.append("ALT %r, alleles meeting the thresholds %r" % (alts, [BASES[a] for a in w["alts"]]))
                    else:
                        fr = [w["mf"][BASES.index(a)] for a in alts]
                        if any(fr[k] < fr[k + 1] - 1e-12 for k in range(len(fr) - 1)):
                            bad.append("ALT %r not in decreasing mean sample frequency %r" % (alts, fr))
                    if ("REFMASKED" in f[7].split(";")) != w["refmasked"]:
                        bad.append("REFMASKED flag %s, reference met thresholds: %s" % ("REFMASKED" in f[7], not w["refmasked"]))
                    if not bad:
                        order = [w["ref"]] + [BASES.index(a) for a in alts]
                        info = dict(kv.split("=") for kv in f[7].split(";") if "=" in kv)
                        pop = [int(x) for x in info["AD"].split(",")]
                        if pop != [int(w["depth"][:, a].sum()) for a in order]:
                            bad.append("INFO/AD %r, summed depths %r" % (pop, [int(w["depth"][:, a].sum()) for a in order]))
                        admf = [float(x) if x != "." else float("nan") for x in info["ADMF"].split(",")]
                        wantf = [float(w["mf"][a]) for a in order]
                        if len(admf) != len(wantf) or any(abs(x - y) > 0.0005 + 1e-9 for x, y in zip(admf, wantf) if not (x != x and y != y)):
                            bad.append("INFO/ADMF %r, mean sample frequencies %r" % (admf, wantf))
                        for s in range(nsamp):
                            ad = f[9 + s].split(":")[1].split(",")
                            if [int(x) for x in ad] != [int(w["depth"][s, a]) for a in order]:
                                bad.append("sample %d AD %r, depths %r" % (s, ad, [int(w["depth"][s, a]) for a in order]))
                    for b in bad:
                        r.violation("thr-record|ind_maf=%g|ind_mad=%d|min_ind=%d|maf=%g|mad=%d" % (im, iad, mi, mf, md), "%s (%s)" % (b, tag), payload)
                r.outcome((depth.tolist(), im, iad, mi, mf, md, len(want)))
        finally:
            find_snvs.bam_region_depths = real
    r.sample({"threshold_cases": r.evaluations, "shape": [npos, nsamp], "tensors": len(tensors), "threshold_sets": len(thr_sets)}, cap=1)
    return r


def job_cli(job):
    """the command line wires every option to the block writer"""
    from mchap.application import find_snvs

    r = Result()
    payload = {"kind": "job", "job": job}
    d = env.scratch_dir("c19c")
    fa = synth.write_ref(str(d))
    L = letters()
    rd1 = [mk(i, l) for i, l in enumerate([("plain", 0, 60, "A"), ("plain", 0, 60, "C"), ("plain", 0, 60, "C"), ("plain", 0, 60, "C"), ("dup", 0x400, 60, "G"), ("dup", 0x400, 60, "G"), ("dup", 0x400, 60, "G"),
                                            ("qcfail", 0x200, 60, "T"), ("qcfail", 0x200, 60, "T"), ("qcfail", 0x200, 60, "T"), ("supp", 0x800, 60, "A"), ("supp", 0x800, 60, "A"),
                                            ("plain", 0, 5, "G"), ("plain", 0, 5, "G"), ("plain", 0, 5, "G"), ("plain", 0, 5, "G")])]
    for i, a in enumerate(rd1):
        a["pos"] = 10 + (i % 2)
        seq = list(RSEQ[a["pos"]:a["pos"] + 10])
        seq[SITE - a["pos"]] = rd1[i]["seq"][SITE - (10 + 2 * (i % 3))]
        a["seq"] = "".join(seq)
    # sample names whose lexicographic order is the reverse of the argument order: depths must follow the *names* in the header
    N1, N2 = "Sz", "Sa"
    p1 = synth.write_bam(os.path.join(str(d), "S1.bam"), [("rg1", N1)], rd1)
    rd2 = [dict(a, name="t%d" % i, rg="rg2") for i, a in enumerate(rd1[:6])]
    p2 = synth.write_bam(os.path.join(str(d), "S2.bam"), [("rg2", N2)], rd2)
    bed = synth.write_bed(str(d), [(CONTIG, SITE - 2, SITE + 3, "t")], "t.bed")
    for mq, bam_order in ((0, (p1, p2)), (20, (p1, p2)), (0, (p2, p1))):
        for kd in (False, True):
            for kq in (False, True):
                for ks in (False, True):
                    argv = ["mchap", "find-snvs", "--bam"] + list(bam_order) + ["--reference", fa, "--targets", bed, "--mapping-quality", str(mq), "--ind-maf", "0.01", "--ind-mad", "1"]
                    argv += (["--keep-duplicate-reads"] if kd else []) + (["--keep-qcfail-reads"] if kq else []) + (["--keep-supplementary-reads"] if ks else [])
                    buf = io.StringIO()
                    r.evaluations += 1
                    r.nontrivial += 1
                    try:
                        with contextlib.redirect_stdout(buf):
                            find_snvs.main(argv)
                    except Exception as e:  # noqa
                        r.violation("cli-exception|%s" % type(e).__name__, "%s: %s for %r" % (type(e).__name__, e, argv[10:]), payload)
                        continue
                    env.quiet()
                    recs = [l.split("\t") for l in buf.getvalue().splitlines() if l and not l.startswith("#")]
                    hdr = [l.split("\t") for l in buf.getvalue().splitlines() if l.startswith("#CHROM")]
                    cols = hdr[0][9:] if hdr else []
                    arg_names = [N1, N2] if bam_order[0] == p1 else [N2, N1]
                    if cols != arg_names:
                        r.violation("cli-columns", "header sample columns %r, --bam order gives %r" % (cols, arg_names), payload)
                        continue
                    site = [f for f in recs if int(f[1]) == SITE + 1]
                    want = {}
                    for s, reads in ((N1, rd1), (N2, rd2)):
                        c = {b: 0 for b in BASES}
                        for a in reads:
                            if counted(a, mq, not kd, not kq, not ks):
                                c[a["seq"][SITE - a["pos"]]] += 1
                        want[s] = c
                    if len(site) != 1:
                        r.violation("cli-site|mq=%d|keepdup=%s|keepqc=%s|keepsupp=%s" % (mq, kd, kq, ks), "site %d emitted %d times" % (SITE + 1, len(site)), payload)
                        continue
                    f = site[0]
                    alleles = [f[3]] + ([] if f[4] in (".", "") else f[4].split(","))
                    for k, s in enumerate(cols):
                        ad = [int(x) for x in f[9 + k].split(":")[1].split(",")]
                        got = dict(zip(alleles, ad))
                        exp = {b: want[s][b] for b in alleles}
                        if got != exp:
                            r.violation("cli-depth|mq=%d|keepdup=%s|keepqc=%s|keepsupp=%s" % (mq, kd, kq, ks),
                                        "sample %s AD %r, reads passing the configured filters give %r" % (s, got, exp), payload)
                    r.outcome((mq, kd, kq, ks, f[4], f[9], f[10]))
    # a soft-masked (lower-case) reference is the same reference: identical records apart from the case of REF
    d2 = os.path.join(str(d), "lower")
    os.makedirs(d2, exist_ok=True)
    fa_lower = synth.write_ref(d2, {k: (v[:8] + v[8:40].lower() + v[40:]) for k, v in REF.items()})
    outs = []
    for fasta in (fa, fa_lower):
        argv = ["mchap", "find-snvs", "--bam", p1, p2, "--reference", fasta, "--targets", bed, "--mapping-quality", "0", "--ind-maf", "0.01", "--ind-mad", "1"]
        buf = io.StringIO()
        r.evaluations += 1
        try:
            with contextlib.redirect_stdout(buf):
                find_snvs.main(argv)
        except Exception as e:  # noqa
            r.violation("cli-exception|%s" % type(e).__name__, "%s: %s for a %s reference" % (type(e).__name__, e, "lower-case" if fasta == fa_lower else "upper-case"), payload)
            outs = []
            break
        env.quiet()
        outs.append([l.split("\t") for l in buf.getvalue().splitlines() if l and not l.startswith("#")])
    if len(outs) == 2:
        up, lo = outs
        if len(up) != len(lo) or any(a[:3] + [a[3].upper()] + a[4:] != b[:3] + [b[3].upper()] + b[4:] for a, b in zip(up, lo)):
            r.violation("cli-softmasked-reference", "records differ between an upper-case and a soft-masked (lower-case) reference: %r vs %r" % (
                [x[:5] for x in up], [x[:5] for x in lo]), payload)
        r.outcome(("softmask", len(up)))
    r.sample({"cli": "find-snvs main() with every keep-flag combination x mapping quality {0,20}"})
    return r
