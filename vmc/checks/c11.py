"""C11  Genotype <-> G-field index mapping is the VCF order and a bijection; exact binomials."""
import itertools
import math

import numpy as np

from ..result import Result

META = {
    "level": "exploration",
    "rule": "for every (ploidy P, alleles H) in the bound: every sorted genotype, in the order produced by an independent "
    "sorted enumeration (key = reversed tuple, the VCF spec order); index->genotype->index, image = 0..N-1, and the "
    "increment_genotype walker (a one-operation state machine: states = genotypes, transitions = increments) visits exactly "
    "that order; binomials on the full grid n<200,k<20 and in windows along the N<2^53 frontier for every k<=80; "
    "non-trivial = ploidy>=2 and H>=2",
    "bound": {"quick": "all (P<=14, H<=160) with N<=3e4 (covers ploidy >= 12 and > 128 alleles); frontier windows of 40 n-values per k", "thorough": "all (P<=16, H<=300) with N<=2e6; windows of 400"},
    "assumptions": ["reference: math.comb and itertools.combinations_with_replacement sorted by reversed tuple"],
    "trusted_base": ["python math.comb"],
}


def warm(tier):
    from mchap.jitutils import (genotype_alleles_as_index, index_as_genotype_alleles, increment_genotype, comb,
                                comb_with_replacement, _comb)
    from mchap.calling.utils import posterior_as_array

    for dt in (np.int64, np.int8, np.int32):
        g = np.array([0, 1], dt)
        genotype_alleles_as_index(g)
        increment_genotype(g)
    index_as_genotype_alleles(3, 2)
    comb(5, 2)
    comb_with_replacement(5, 2)
    _comb(5, 2)
    posterior_as_array(np.array([[0, 1]]), np.array([1.0]), 3)



def setup_extra():
    from .. import cliflow

    for prog, h in (("call", "hand"), ("call-exact", "asm"), ("call-pedigree", "hand"), ("assemble", "0.2")):
        cliflow.gfield_flow(Result(), {}, prog, h)


def plan(tier, seed):
    maxP, maxH, maxN = (14, 160, 3 * 10 ** 4) if tier == "quick" else (16, 300, 2 * 10 ** 6)
    jobs = []
    for P in range(1, maxP + 1):
        for H in range(1, maxH + 1):
            N = math.comb(H + P - 1, P)
            if N <= maxN:
                jobs.append(("map", P, H, N))
    jobs.append(("grid", 0, 0, 4000))
    win = 40 if tier == "quick" else 400
    for k in range(1, 81, 4):
        jobs.append(("frontier", k, min(81, k + 4), win, 3000))
    for prog in ("call", "call-exact", "call-pedigree"):
        for hname in ("asm", "hand"):
            jobs.append(("gfields", prog, hname, 10 ** 8))
    for thr in ("0.2", "0.9"):
        jobs.append(("gfields", "assemble", thr, 10 ** 8))
    for P in range(1, 6):
        jobs.append(("asarray", P, 5000))
    jobs.sort(key=lambda j: -j[-1])
    return jobs


def run_job(job):
    return {"map": job_map, "grid": job_grid, "frontier": job_frontier, "gfields": job_gfields, "asarray": job_asarray}[job[0]](job)


def job_gfields(job):
    """GP / GL as printed by the callers (vmc/cliflow.gfield_flow): length, placement of the called genotype, likelihood of every genotype at its index"""
    from .. import cliflow

    r = Result()
    cliflow.gfield_flow(r, {"kind": "job", "job": job}, job[1], job[2])
    return r


def job_asarray(job):
    """posterior_as_array / PosteriorGenotypeAllelesDistribution.as_array: every set of <= 2 sorted genotypes lands on its VCF positions"""
    from mchap.calling.utils import posterior_as_array
    from mchap.calling.classes import PosteriorGenotypeAllelesDistribution

    _, P, _ = job
    r = Result()
    payload = {"kind": "job", "job": job}
    for H in range(1, 6):
        order = sorted(itertools.combinations_with_replacement(range(H), P), key=lambda g: tuple(reversed(g)))
        N = len(order)
        pos = {g: i for i, g in enumerate(order)}
        pairs = [(g,) for g in order] + [(a, b) for a in order[:12] for b in order[-12:] if a != b]
        for gs in pairs:
            probs = np.array([0.625, 0.25][: len(gs)])
            G = np.array(gs, np.int64).reshape(len(gs), P)
            want = np.zeros(N)
            for g, p in zip(gs, probs):
                want[pos[g]] += p
            for name, got in (("posterior_as_array", posterior_as_array(G, probs, N)), ("as_array", PosteriorGenotypeAllelesDistribution(G, probs).as_array(H))):
                r.evaluations += 1
                r.states += 1
                if len(gs) > 1 or P > 1:
                    r.nontrivial += 1
                got = np.asarray(got, float)
                if got.shape != (N,) or not np.array_equal(got, want):
                    r.violation("asarray|%s|P=%d|H=%d" % (name, P, H), "genotypes %r with probabilities %r give %r, expected %r (VCF order over %d genotypes)" % (
                        gs, probs.tolist(), got.tolist(), want.tolist(), N), payload)
            r.outcome((P, H, gs))
    r.sample({"asarray": "P=%d, H<=5, all single genotypes and 144 pairs" % P}, cap=1)
    return r


def job_map(job):
    from mchap.jitutils import genotype_alleles_as_index, index_as_genotype_alleles, increment_genotype
    from mchap.combinatorics import count_unique_genotypes
    from mchap.calling.utils import posterior_as_array

    _, P, H, N = job
    r = Result()
    payload = {"kind": "job", "job": job}
    tag = "P=%d|H=%d" % (P, H)
    order = sorted(itertools.combinations_with_replacement(range(H), P), key=lambda g: g[::-1])
    assert len(order) == N
    if count_unique_genotypes(H, P) != N:
        r.violation("count|" + tag, "count_unique_genotypes=%r, C(H+P-1,P)=%d" % (count_unique_genotypes(H, P), N), payload)
    walker = np.zeros(P, np.int64)
    seen = set()
    dts = (np.int64, np.int8) if H < 127 else (np.int64,)
    for i, g in enumerate(order):
        r.evaluations += 1
        r.states += 1
        if P >= 2 and H >= 2:
            r.nontrivial += 1
        for dt in dts if (i % 17 == 0 or N < 500) else (np.int64,):
            idx = int(genotype_alleles_as_index(np.array(g, dt)))
            if idx != i:
                r.violation("index|%s|g=%s|dtype=%s" % (tag, g, dt.__name__), "genotype_alleles_as_index=%d, VCF position %d" % (idx, i), payload)
        seen.add(idx)
        back = index_as_genotype_alleles(i, P)
        if tuple(int(x) for x in back) != g:
            r.violation("inverse|%s|i=%d" % (tag, i), "index_as_genotype_alleles(%d)=%r, VCF order has %r" % (i, back.tolist(), g), payload)
        if tuple(int(x) for x in walker) != g:
            r.violation("walker|%s|i=%d" % (tag, i), "increment_genotype walk is at %r, VCF order has %r" % (walker.tolist(), g), payload)
            walker[:] = g
        increment_genotype(walker)
        r.transitions += 1
    if seen != set(range(N)):
        r.violation("bijection|" + tag, "image of the index map is not 0..N-1", payload)
    # after the last genotype the walker leaves the allele range (first genotype with allele H)
    if int(walker.max()) != H:
        r.violation("walker-end|" + tag, "walker after N increments is %r" % (walker.tolist(),), payload)
    # G-array placement
    if N <= 3000:
        obs = np.array(order[::3], np.int64).reshape(-1, P)
        pr = np.arange(1, len(obs) + 1, dtype=float)
        arr = posterior_as_array(obs, pr, N)
        want = np.zeros(N)
        want[::3] = pr
        if not np.array_equal(arr, want):
            r.violation("as-array|" + tag, "posterior_as_array misplaces probabilities", payload)
    r.outcome((P, H, N))
    r.sample({"ploidy": P, "alleles": H, "N": N, "first": order[: min(4, N)], "last": order[-1]}, cap=1)
    return r


def job_grid(job):
    from mchap.jitutils import comb, comb_with_replacement, _comb

    r = Result()
    payload = {"kind": "job", "job": job}
    LIM = 2 ** 53  # the property promises exactness only below 2^53
    for n in range(0, 200):
        for k in range(0, 20):
            want = math.comb(n, k)
            if want < LIM:
                r.evaluations += 1
                r.nontrivial += 1
                for nm, f in (("comb", comb), ("_comb", _comb)):
                    got = int(f(n, k))
                    if got != want:
                        r.violation("%s|n=%d|k=%d" % (nm, n, k), "%s(%d,%d)=%d, exact %d" % (nm, n, k, got, want), payload)
            if n >= 1:
                want = math.comb(n + k - 1, k)
                if want < 2 ** 53:
                    r.evaluations += 1
                    got = int(comb_with_replacement(n, k))
                    if got != want:
                        r.violation("cwr|n=%d|k=%d" % (n, k), "comb_with_replacement(%d,%d)=%d, exact %d" % (n, k, got, want), payload)
                    r.outcome(want)
    r.sample({"grid": "n<200,k<20", "example": ["comb(150,15)", int(comb(150, 15))]})
    return r


def job_frontier(job):
    from mchap.jitutils import comb_with_replacement, genotype_alleles_as_index, index_as_genotype_alleles
    from mchap.combinatorics import count_unique_genotypes

    _, k0, k1, win, _ = job
    r = Result()
    payload = {"kind": "job", "job": job}
    LIM = 2 ** 53
    for k in range(k0, k1):
        # largest n with C(n+k-1,k) < 2^53
        lo, hi = 1, 2 ** 53
        while lo < hi:
            mid = (lo + hi + 1) // 2
            if math.comb(mid + k - 1, k) < LIM:
                lo = mid
            else:
                hi = mid - 1
        nmax = lo
        ns = set(range(max(1, nmax - win), nmax + 1)) | set(range(1, min(nmax, 2000) + 1, 1 if k <= 12 else 7))
        for n in sorted(ns):
            N = math.comb(n + k - 1, k)
            if N >= LIM:
                continue
            r.evaluations += 1
            r.nontrivial += 1
            got = int(comb_with_replacement(n, k))
            if got != N:
                r.violation("cwr|n=%d|k=%d" % (n, k), "comb_with_replacement(%d,%d)=%d, exact %d" % (n, k, got, N), payload)
            cu = count_unique_genotypes(n, k)
            if cu != N:
                r.violation("count|n=%d|k=%d" % (n, k), "count_unique_genotypes(%d,%d)=%r, exact %d" % (n, k, cu, N), payload)
            # the last genotype (all alleles n-1) has index N-1 and inverts
            if n - 1 <= 2 ** 62:
                last = np.full(k, n - 1, np.int64)
                idx = int(genotype_alleles_as_index(last))
                if idx != N - 1:
                    r.violation("index-last|n=%d|k=%d" % (n, k), "index of the last genotype %d != N-1=%d" % (idx, N - 1), payload)
                elif k <= 20 and n <= 200000:
                    back = index_as_genotype_alleles(N - 1, k)
                    if back.tolist() != last.tolist():
                        r.violation("inverse-last|n=%d|k=%d" % (n, k), "index_as_genotype_alleles(N-1) = %r" % (back.tolist()[:6],), payload)
        r.outcome((k, nmax))
        r.sample({"k": k, "largest_n_with_N<2^53": nmax, "N": math.comb(nmax + k - 1, k)}, cap=2)
    return r
