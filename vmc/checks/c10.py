"""C10  Samples are called independently; a pool equals the union of its reads.

No sampler memoisation here: independence from the other samples includes independence from the RNG
state they leave behind (seed 0 and 42 are both used)."""
import itertools
import os

import numpy as np

from ..result import Result
from .. import env, stddata, synth, vcfparse

META = {
    "level": "exploration",
    "rule": "case = (program, seed, ordered subset of BAM arguments | multi-sample BAM layout | pool assignment); every sample column is compared with the column "
    "obtained when that sample is analysed alone (assemble: decoded haplotype sequences + statistics, '.' may become a named allele); every pool column is compared "
    "with the column of one sample whose BAM is the physical union of the pooled reads; non-trivial = at least two samples / a pool of >= 2 samples",
    "bound": {"quick": "3 samples (ploidy 4/2/6), 3 loci; all 15 ordered non-empty subsets of the BAM arguments x {assemble, call, call-exact} x seeds {0,42}; "
                       "the same with a read-less sample (S1, S0, S2; S0 has no read at the SNV loci); every size of joint call set in {1..3,126..130,254..258,300} x edge allele "
                       "numbers through assemble's allele-numbering helper; two samples in one BAM file; all 27 assignments of 3 samples to non-empty subsets of 2 pools x 3 programs",
              "thorough": "5 loci; pools with seeds {0,42}"},
    "assumptions": ["merged BAMs are built so that the row order of the pooled read matrix equals the order obtained by concatenating the pool members (all reads of a "
                    "locus start at the same coordinate and the stable sort keeps member order), making the comparison exact",
                    "read names are distinct across samples (equal names in a physical union would be merged as mates)"],
    "trusted_base": ["vmc/vcfparse.py", "pysam BAM writer"],
}

SAMPLES = ["S1", "S2", "S3"]
STAT_FIELDS = ["GQ", "SQ", "DP", "RCOUNT", "RCALLS", "MEC", "MECP", "GPM", "SPM", "MCI"]


def warm(tier):
    env.quiet()
    d = env.scratch_dir("c10w")
    D = stddata.Data(d)
    o = stddata.run(D.assemble_args(bed=D.bed_subset(["L1", "L3"], "w.bed"), report=["AFP"]))
    hv = D.save_vcf(o, "w.vcf")
    for prog in ("call", "call-exact"):
        stddata.run(D.call_args(prog, hv, report=["AFP"]))
    env.quiet()


def plan(tier, seed):
    jobs = []
    for prog in ("assemble", "call", "call-exact"):
        for s in (0, 42):
            jobs.append(("subsets", prog, s, tier, 40000 if prog == "assemble" else 20000))
            jobs.append(("multibam", prog, s, tier, 6000))
        # a sample without a single read at the SNV-bearing loci, listed before / between / after covered samples
        jobs.append(("subsets", prog, 42, tier + "+uncovered", 20000))
        for ch in range(3):
            for s in ((0, 42) if tier == "thorough" else (42,)):
                jobs.append(("pools", prog, s, ch, 3, tier, 30000 if prog == "assemble" else 15000))
    jobs.append(("labels", 300, 1))
    for prog in ("assemble", "call", "call-exact", "call-pedigree"):
        jobs.append(("inputspec", prog, seed, 25000))
    jobs.sort(key=lambda j: -j[-1])
    return jobs


def run_job(job):
    env.quiet()
    return {"subsets": job_subsets, "multibam": job_multibam, "pools": job_pools, "labels": job_labels, "inputspec": job_inputspec}[job[0]](job)


def job_inputspec(job):
    """the same alignment files named in the four documented ways (paths on the command line; a text file of paths; a text file of sample<TAB>path pairs;
    sample identity taken from the read-group ID instead of SM) and per-sample parameter files with their lines in any order give the same records:
    a sample's column depends on its reads and its own parameters, not on how the files were listed"""
    import os

    _, prog, seed, _ = job
    r = Result()
    payload = {"kind": "job", "job": job}
    d = env.scratch_dir("c10i")
    D = stddata.Data(d)
    bed = D.bed_subset(["L1", "L5", "L3", "L7", "L4", "L6"], "sub.bed")
    hv = D.save_vcf(stddata.run(D.assemble_args(bed=bed)), "asm_in.vcf") if prog != "assemble" else None
    env.quiet()
    ped_extra = D.pedigree_files() if prog == "call-pedigree" else []

    def run(bam_args, ploidy_file, extra=()):
        if prog == "assemble":
            argv = D.assemble_args(bed=bed, report=["AFP", "GL"], extra=["--mcmc-seed", "5"] + list(extra))
        else:
            argv = D.call_args(prog, hv, report=["AFP", "GL"], extra=(["--mcmc-seed", "5"] if prog != "call-exact" else []) + ped_extra + list(extra))
        i, j = argv.index("--bam"), argv.index("--reference")
        argv = argv[: i + 1] + list(bam_args) + argv[j:]
        argv[argv.index("--ploidy") + 1] = ploidy_file
        out = stddata.run(argv)
        env.quiet()
        return vcfparse.parse(out)

    def write(name, rows):
        p = os.path.join(D.dir, name)
        with open(p, "w") as f:
            for row in rows:
                f.write("\t".join(str(x) for x in row) + "\n")
        return p

    order = ["S2", "S3", "S1"]  # not sorted, not the order of any parameter file
    paths = [D.bams[s_] for s_ in order]
    plo = write("plo_a.txt", [(s_, stddata.PLOIDY[s_]) for s_ in ("S3", "S1", "S2")])
    try:
        base = run(paths, plo)
    except Exception as e:  # noqa
        e = synth.root_cause(e)
        r.violation("inputspec-exception|%s|baseline" % prog, "%s: %s" % (type(e).__name__, str(e)[:200]), payload)
        return r
    variants = {
        "list-file": (lambda: run([write("bams.txt", [(p_,) for p_ in paths])], plo)),
        "pairs-file": (lambda: run([write("pairs.txt", list(zip(order, paths)))], plo)),
        "ploidy-file-line-order": (lambda: run(paths, write("plo_b.txt", [(s_, stddata.PLOIDY[s_]) for s_ in ("S1", "S2", "S3")]))),
    }
    if prog != "call-pedigree":
        variants["read-group-ID"] = (lambda: run(paths, write("plo_rg.txt", [(stddata.RG[s_], stddata.PLOIDY[s_]) for s_ in ("S3", "S1", "S2")]), ["--read-group-field", "ID"]))
    for name, fn in variants.items():
        r.evaluations += 1
        r.nontrivial += 1
        try:
            hdr, samples, recs = fn()
        except Exception as e:  # noqa
            e = synth.root_cause(e)
            r.violation("inputspec-exception|%s|%s" % (prog, name), "%s: %s" % (type(e).__name__, str(e)[:200]), payload)
            env.quiet()
            continue
        want_names = [stddata.RG[s_] for s_ in order] if name == "read-group-ID" else order
        if samples != want_names or base[1] != order:
            r.violation("inputspec-columns|%s|%s" % (prog, name), "sample columns %r (baseline %r), files were listed as %r" % (samples, base[1], want_names), payload)
            continue
        a = [x["line"] for x in base[2]]
        b = [x["line"] for x in recs]
        if a != b:
            k = next((i for i, (x, y) in enumerate(zip(a, b)) if x != y), min(len(a), len(b)))
            r.violation("inputspec-records|%s|%s" % (prog, name), "records differ from the run with the files on the command line; first difference at record %d:\n%s\n%s" % (
                k, a[k][:300] if k < len(a) else None, b[k][:300] if k < len(b) else None), payload)
        r.outcome((prog, name, len(recs)))
    r.sample({"input_specifications": sorted(variants), "program": prog, "bam_order": order}, cap=1)
    return r


def loci_names(tier):
    return ["L1", "L5", "L3"] if tier == "quick" else ["L1", "L5", "L2", "L3", "L4"]


def run_prog(D, prog, samples, seed, bed, hv, report=("AFP", "ACP", "AOP", "SNVDP", "GL", "GP"), bams=None, extra=()):
    ex = list(extra)
    if prog in ("assemble", "call"):
        ex += ["--mcmc-seed", str(seed)]
    if prog == "assemble":
        argv = D.assemble_args(samples=samples, bed=bed, report=report, extra=ex)
    else:
        argv = D.call_args(prog, hv, samples=samples, report=report, extra=ex)
    if bams is not None:
        i = argv.index("--bam")
        j = argv.index("--reference")
        argv = argv[: i + 1] + list(bams) + argv[j:]
    out = stddata.run(argv)
    env.quiet()
    return vcfparse.parse(out)


def column(recs, samples, s):
    i = samples.index(s)
    return [(r["id"], r["fmt"], r["raw_samples"][i], [r["ref"]] + r["alt"]) for r in recs]


def compare_assemble(r, payload, tag, alone, together):
    """alone / together: column() results for one sample"""
    for (lid, fmt_a, va, alleles_a), (lid_t, fmt_t, vt, alleles_t) in zip(alone, together):
        da, dt = dict(zip(fmt_a, va)), dict(zip(fmt_t, vt))
        for f in STAT_FIELDS:
            if da.get(f) != dt.get(f):
                r.violation("assemble-stat|%s" % f, "locus %s: %s alone %r, with other samples %r (%s)" % (lid, f, da.get(f), dt.get(f), tag), payload)
        ga = [None if a == "." else alleles_a[int(a)] for a in vcfparse.gt_alleles(da["GT"])]
        gt = [None if a == "." else alleles_t[int(a)] for a in vcfparse.gt_alleles(dt["GT"])]
        # named haplotypes of the sample alone must all be present when called with others; '.' may become named, never the reverse
        rest = list(gt)
        ok = True
        for h in ga:
            if h is not None:
                if h in rest:
                    rest.remove(h)
                else:
                    ok = False
        if not ok or len(rest) != sum(1 for h in ga if h is None):
            r.violation("assemble-gt", "locus %s: called haplotypes alone %r, with other samples %r (%s)" % (lid, ga, gt, tag), payload)
        # G-length fields: the value of a genotype made of haplotypes listed in both runs must be the same
        for f in ("GL", "GP"):
            if f in da and f in dt and da[f] != "." and dt[f] != ".":
                P = len(ga)
                Ga = sorted(itertools.combinations_with_replacement(range(len(alleles_a)), P), key=lambda t: t[::-1])
                Gt = sorted(itertools.combinations_with_replacement(range(len(alleles_t)), P), key=lambda t: t[::-1])
                va_, vt_ = da[f].split(","), dt[f].split(",")
                if len(va_) != len(Ga) or len(vt_) != len(Gt):
                    r.violation("assemble-%s-length" % f, "locus %s: %s has %d / %d values for %d / %d genotypes (%s)" % (lid, f, len(va_), len(vt_), len(Ga), len(Gt), tag), payload)
                    continue
                pos_t = {tuple(sorted(alleles_t[i] for i in g)): k for k, g in enumerate(Gt)}
                masked_t = "0" not in vcfparse.gt_alleles(dt["GT"]) and False
                for k, g in enumerate(Ga):
                    key = tuple(sorted(alleles_a[i] for i in g))
                    if key in pos_t and f == "GL" and va_[k] != vt_[pos_t[key]]:
                        r.violation("assemble-GL", "locus %s: GL of genotype %r is %s alone and %s with other samples (%s)" % (lid, key, va_[k], vt_[pos_t[key]], tag), payload)
                        break
        # per-haplotype posterior statistics for haplotypes listed in both
        for f in ("AFP", "ACP", "AOP"):
            if f in da and f in dt and da[f] != "." and dt[f] != ".":
                fa = dict(zip(alleles_a, da[f].split(",")))
                ft = dict(zip(alleles_t, dt[f].split(",")))
                for h in fa:
                    if h in ft and fa[h] != ft[h]:
                        r.violation("assemble-%s" % f, "locus %s haplotype %s: %s alone %s, with other samples %s (%s)" % (lid, h, f, fa[h], ft[h], tag), payload)
                    if h not in ft and float(fa[h]) > 0 and h != alleles_a[0]:
                        r.violation("assemble-%s-dropped" % f, "locus %s haplotype %s listed alone (%s=%s) is missing with other samples (%s)" % (lid, h, f, fa[h], tag), payload)


def job_subsets(job):
    _, prog, seed, tier, _ = job
    r = Result()
    payload = {"kind": "job", "job": job}
    d = env.scratch_dir("c10")
    SAMPLES = ["S1", "S2", "S3"]
    if tier.endswith("+uncovered"):
        tier = tier.split("+")[0]
        SAMPLES = ["S1", "S0", "S2"]
    D = stddata.Data(d, samples=SAMPLES)
    bed = D.bed_subset(loci_names(tier), "sub.bed")
    hv = None
    if prog != "assemble":
        hv = D.save_vcf(stddata.run(D.assemble_args(bed=bed)), "asm_in.vcf")
        env.quiet()
    uncovered = "S0" in SAMPLES
    # every sample has its own inbreeding coefficient (file lines in another order than the BAM arguments): a sample's column must depend on its own value only
    inb = os.path.join(D.dir, "inbreeding.txt")
    with open(inb, "w") as f:
        for s_, v in (("S3", 0.15), ("S0", 0.1), ("S2", 0.3), ("S1", 0.05)):
            f.write("%s\t%g\n" % (s_, v))
    # with a read-less sample also at a high reporting threshold: that sample then has no haplotype to report at all, which must not affect the others
    for extra in ([["--inbreeding", inb], ["--inbreeding", inb, "--haplotype-posterior-threshold", "0.6"]] if (uncovered and prog == "assemble") else [["--inbreeding", inb]]):
        alone = {}
        for s in SAMPLES:
            hdr, samples, recs = run_prog(D, prog, [s], seed, bed, hv, extra=extra)
            alone[s] = column(recs, samples, s)
        for k in (2, 3):
            for sub in itertools.permutations(SAMPLES, k):
                hdr, samples, recs = run_prog(D, prog, list(sub), seed, bed, hv, extra=extra)
                r.evaluations += 1
                r.nontrivial += 1
                tag = "%s|seed=%d|bams=%s%s" % (prog, seed, list(sub), "|" + " ".join(extra) if extra else "")
                if samples != list(sub):
                    r.violation("column-order|%s" % prog, "sample columns %r for BAM arguments %r" % (samples, list(sub)), payload)
                    continue
                for s in sub:
                    col = column(recs, samples, s)
                    if prog == "assemble":
                        compare_assemble(r, payload, tag + "|sample=" + s, alone[s], col)
                    else:
                        for (lid, fmt_a, va, al_a), (_, fmt_t, vt, al_t) in zip(alone[s], col):
                            if va != vt or fmt_a != fmt_t or al_a != al_t:
                                diff = [(f, a, b) for f, a, b in zip(fmt_a, va, vt) if a != b]
                                r.violation("independent|%s|seed=%d" % (prog, seed), "locus %s sample %s: alone vs with %r differs in %r (%s)" % (lid, s, list(sub), diff[:4], tag), payload)
                r.outcome((prog, seed, sub, tuple(extra), tuple(tuple(c[2]) for c in column(recs, samples, sub[0]))))
    r.sample({"program": prog, "seed": seed, "samples": SAMPLES, "ordered_subsets": 12, "loci": loci_names(tier)})
    return r


def job_labels(job):
    """assemble numbers a sample's haplotypes through the label map of the joint call set: for every size of that call
    set up to the bound and every pair of allele numbers in it, the helper must return exactly those numbers."""
    from mchap.application.assemble import _genotype_as_alleles

    _, nmax, _ = job
    r = Result()
    payload = {"kind": "job", "job": job}
    haps = np.array([[(i >> b) & 1 for b in range(9)] for i in range(nmax + 1)], dtype=np.int8)
    unknown = np.full(9, 1, np.int8)
    unknown[0] = 2
    for n in sorted(set([1, 2, 3, 126, 127, 128, 129, 130, 254, 255, 256, 257, 258, nmax])):
        labels = {haps[i].tobytes(): i for i in range(n)}
        edge = sorted(set(i for i in (0, 1, 2, 125, 126, 127, 128, 129, 130, 253, 254, 255, 256, 257, 258, n - 2, n - 1) if 0 <= i < n))
        for i in edge:
            for j in edge + [-1]:
                for k in (i, -1):
                    g = np.array([haps[x] if x >= 0 else unknown for x in (j, i, k)])
                    got = [int(x) for x in _genotype_as_alleles(g, labels)]
                    want = sorted(x for x in (j, i, k) if x >= 0) + [-1] * sum(1 for x in (j, i, k) if x < 0)
                    r.evaluations += 1
                    if n > 1:
                        r.nontrivial += 1
                    if got != want:
                        r.violation("allele-numbers", "call set of %d haplotypes: genotype of alleles %r is numbered %r" % (n, want, got), payload)
    r.outcome(("labels", nmax))
    r.sample({"label_map_sizes": "1..%d (edges)" % nmax})
    return r


def job_multibam(job):
    """two samples living in one alignment file (and a third in its own)"""
    _, prog, seed, tier, _ = job
    r = Result()
    payload = {"kind": "job", "job": job}
    d = env.scratch_dir("c10m")
    D = stddata.Data(d)
    bed = D.bed_subset(loci_names(tier), "sub.bed")
    hv = None
    if prog != "assemble":
        hv = D.save_vcf(stddata.run(D.assemble_args(bed=bed)), "asm_in.vcf")
        env.quiet()
    both = stddata.sample_reads("S1") + stddata.sample_reads("S2")
    p12 = synth.write_bam(os.path.join(D.dir, "S12.bam"), [("rg1", "S1"), ("rg2", "S2")], both)
    p21 = synth.write_bam(os.path.join(D.dir, "S21.bam"), [("rg2", "S2"), ("rg1", "S1")], stddata.sample_reads("S2") + stddata.sample_reads("S1"))
    ref_run = run_prog(D, prog, SAMPLES, seed, bed, hv)
    for layout, bams in (("S12+S3", [p12, D.bams["S3"]]), ("S3+S21", [D.bams["S3"], p21])):
        hdr, samples, recs = run_prog(D, prog, SAMPLES, seed, bed, hv, bams=bams)
        r.evaluations += 1
        r.nontrivial += 1
        tag = "%s|seed=%d|layout=%s" % (prog, seed, layout)
        for s in SAMPLES:
            if s not in samples:
                r.violation("multibam-samples|%s" % prog, "sample %s missing from the header %r (%s)" % (s, samples, tag), payload)
                continue
            a = column(ref_run[2], ref_run[1], s)
            b = column(recs, samples, s)
            if prog == "assemble":
                compare_assemble(r, payload, tag + "|sample=" + s, a, b)
            else:
                for (lid, fa, va, _), (_, fb, vb, _) in zip(a, b):
                    if va != vb:
                        r.violation("multibam|%s" % prog, "locus %s sample %s: one BAM per sample vs two samples in one file differ in %r (%s)" % (
                            lid, s, [(f, x, y) for f, x, y in zip(fa, va, vb) if x != y][:4], tag), payload)
        r.outcome((prog, seed, layout))
    r.sample({"multi_sample_bam": True, "program": prog, "seed": seed})
    return r


def pool_data(d, tier):
    """a data set whose reads of one locus all start at the same coordinate (see META.assumptions)"""
    D = stddata.Data(d)
    l1, l3 = stddata.locus_snvs("L1"), stddata.locus_snvs("L3")

    def reads(sample):
        out = []
        haps = stddata.HAPS[sample]
        for i in range(stddata.DEPTH[sample]):
            h = haps["L1"][i % len(haps["L1"])]
            out.append(dict(name="%sa%d" % (sample, i), contig="chr1", pos=8, cigar=[("M", 20)], seq=synth.hap_seq("chr1", 8, 20, l1, h), rg=stddata.RG[sample]))
            h = haps["L3"][i % len(haps["L3"])]
            out.append(dict(name="%sb%d" % (sample, i), contig="chr2", pos=5, cigar=[("M", 18)], seq=synth.hap_seq("chr2", 5, 18, l3, h), rg=stddata.RG[sample]))
            out.append(dict(name="%sc%d" % (sample, i), contig="chr1", pos=36, cigar=[("M", 22)], seq=synth.REF["chr1"][36:58], rg=stddata.RG[sample]))
        return out

    R = {s: reads(s) for s in SAMPLES}
    for s in SAMPLES:
        D.bams[s] = synth.write_bam(os.path.join(D.dir, "p_%s.bam" % s), [(stddata.RG[s], s)], R[s])
    return D, R


def job_pools(job):
    _, prog, seed, ch, nch, tier, _ = job
    r = Result()
    payload = {"kind": "job", "job": job}
    d = env.scratch_dir("c10p")
    D, R = pool_data(d, tier)
    bed = D.bed_subset(["L1", "L5", "L3"], "sub.bed")
    hv = None
    if prog != "assemble":
        hv = D.save_vcf(stddata.run(D.assemble_args(bed=bed, extra=["--ploidy", "4"])), "asm_in.vcf")
        env.quiet()
    memb = [(1, 0), (0, 1), (1, 1)]  # membership of a sample in (pool A, pool B)
    assignments = list(itertools.product(memb, repeat=3))
    union_cols = {}

    def union_column(members):
        key = tuple(members)
        if key not in union_cols:
            name = "U" + "".join(m[1] for m in members)
            reads = []
            for m in members:
                reads += [dict(x, rg="rgU") for x in R[m]]
            p = synth.write_bam(os.path.join(D.dir, name + ".bam"), [("rgU", name)], reads)
            hdr, samples, recs = run_prog(D, prog, None, seed, bed, hv, bams=[p], extra=["--ploidy", "4"])
            union_cols[key] = column(recs, samples, name)
        return union_cols[key]

    for ai, asg in enumerate(assignments):
        if ai % nch != ch:
            continue
        pools = {"PA": [s for s, m in zip(SAMPLES, asg) if m[0]], "PB": [s for s, m in zip(SAMPLES, asg) if m[1]]}
        if not pools["PA"] or not pools["PB"]:
            continue
        pf = os.path.join(D.dir, "pools_%d.txt" % ai)
        with open(pf, "w") as f:
            # listed sample by sample (so the lines of one pool are not contiguous) for even assignments, pool by pool for odd ones
            pairs = [(s, pn) for s in SAMPLES for pn in ("PA", "PB") if s in pools[pn]] if ai % 2 == 0 else [(s, pn) for pn in ("PA", "PB") for s in pools[pn]]
            for s, pn in pairs:
                f.write("%s\t%s\n" % (s, pn))
        tag = "%s|seed=%d|pools=%s" % (prog, seed, pools)
        try:
            hdr, samples, recs = run_prog(D, prog, SAMPLES, seed, bed, hv, extra=["--ploidy", "4", "--sample-pool", pf])
        except Exception as e:  # noqa
            e = synth.root_cause(e)
            r.violation("pool-exception|%s|%s" % (prog, type(e).__name__), "%s: %s (%s)" % (type(e).__name__, e, tag), payload)
            continue
        r.evaluations += 1
        if any(len(v) > 1 for v in pools.values()):
            r.nontrivial += 1
        if sorted(samples) != ["PA", "PB"]:
            r.violation("pool-columns|%s" % prog, "columns %r, expected the two pools (%s)" % (samples, tag), payload)
            continue
        for pn in ("PA", "PB"):
            col = column(recs, samples, pn)
            want = union_column(pools[pn])
            for (lid, fa, va, ala), (_, fb, vb, alb) in zip(col, want):
                if prog == "assemble":
                    # population haplotype lists differ (other pool present): compare statistics and decoded genotype
                    compare_assemble(r, payload, tag + "|pool=" + pn, [(lid, fb, vb, alb)], [(lid, fa, va, ala)])
                elif va != vb:
                    r.violation("pool-union|%s" % prog, "locus %s pool %s=%r: column differs from one sample holding the union of the reads in %r (%s)" % (
                        lid, pn, pools[pn], [(f, x, y) for f, x, y in zip(fa, va, vb) if x != y][:4], tag), payload)
        r.outcome((prog, seed, asg))
    r.sample({"pools": "all assignments of 3 samples to 2 pools (chunk %d/%d)" % (ch, nch), "program": prog})
    return r
