"""C17  Pedigree inheritance model is a proper probability distribution (exhaustive small trios)."""
import itertools
import math

import numpy as np

from ..result import Result
from .. import refmodel as ref

META = {
    "level": "exploration",
    "rule": "all (parent ploidies incl. unknown parents, parent genotypes over the allele set, (tau_p,tau_q) incl. 0 and unbalanced, "
    "lambda where tau=2, (error_p,error_q) pairs, frequency vector) x all progeny genotypes: trio_log_pmf vs brute-force "
    "inheritance, sum to one, positive <=> trio_valid/duo_valid at zero error; gamete_log_pmf over all gametes; the "
    "increment_dosage walker over all constraint vectors; non-trivial = both taus > 0 or a known parent",
    "bound": {"quick": "alleles {0,1,2}; parent ploidy in {2,4} or unknown; lambda in {0,0.2,0.9}; error in {0,0.01,0.5,1}^2; 2 frequency vectors",
              "thorough": "adds alleles {0,1,2,3} for ploidy 2/4 and ploidy 6 parents over 3 alleles"},
    "assumptions": ["reference model: gamete = uniformly random tau-subset of the parent's copies (1-lambda) or a duplicated copy (lambda, tau=2); "
                    "with probability error (1 for unknown parent / tau=0) tau iid draws from the frequencies; progeny = union"],
    "trusted_base": ["vmc/refmodel.trio_pmf (brute-force enumeration)"],
}

FREQS3 = [[0.5, 0.3, 0.2], [0.2, 0.2, 0.6], [1 / 3, 1 / 3, 1 / 3], [0.7, 0.2, 0.1], [0.45, 0.1, 0.45]]
FREQS4 = [[0.4, 0.3, 0.2, 0.1], [0.25] * 4]
TAUS = [(1, 1), (2, 2), (1, 2), (2, 1), (0, 2), (2, 0), (1, 3), (3, 1), (0, 1), (1, 0), (3, 3), (2, 4), (4, 2), (2, 3), (3, 2)]
ERRS = [0.0, 0.01, 0.5, 1.0]
LAMS = [0.0, 0.2, 0.9]


def warm(tier):
    from mchap.pedigree.prior import trio_log_pmf, gamete_log_pmf, increment_dosage, set_initial_dosage
    from mchap.pedigree.validation import trio_valid, duo_valid

    n = 4
    sc = scratch(n)
    pad = lambda g: np.array(list(g) + [-1] * (n - len(g)))
    trio_log_pmf(pad((0, 1)), pad((0, 0)), pad((0, 1)), 2, 2, 1, 1, 0.0, 0.0, 0.01, 0.01, np.log(np.array([0.5, 0.5])), *sc)
    trio_valid(np.array([0, 1]), np.array([0, 0]), np.array([0, 1]), 1, 1, 0.0, 0.0)
    duo_valid(np.array([0, 1]), np.array([0, 0]), 1, 0.0)
    gamete_log_pmf(np.array([1, 0]), 1, np.array([1, 1]), 2, 0.0)
    d = np.zeros(2, np.int64)
    set_initial_dosage(1, np.array([1, 1]), d)
    increment_dosage(d, np.array([1, 1]))


def scratch(n):
    return [np.zeros(n, np.int64) for _ in range(7)] + [np.zeros(n)]


def plan(tier, seed):
    jobs = []
    plo = [(2, 2), (4, 4), (2, 4), (4, 2), (0, 2), (2, 0), (0, 4), (4, 0), (0, 0)]
    for (pp, pq) in plo:
        for (tp, tq) in TAUS:
            if (pp and tp > pp) or (pq and tq > pq):
                continue
            if tp + tq > 6 or tp + tq == 0:
                continue
            for fi in (0, 1 + seed % 4):
                jobs.append(("trio", 3, pp, pq, tp, tq, fi, (pp + 1) ** 2 * (pq + 1) ** 2 * (tp + tq) ** 2))
    if tier == "thorough":
        for (pp, pq) in [(2, 2), (4, 4), (2, 4), (4, 2), (0, 4)]:
            for (tp, tq) in TAUS:
                if (pp and tp > pp) or (pq and tq > pq) or tp + tq > 4 or tp + tq == 0:
                    continue
                jobs.append(("trio", 4, pp, pq, tp, tq, 0, 10 ** 6))
        for (pp, pq) in [(6, 6), (6, 4), (2, 6), (6, 0)]:
            for (tp, tq) in [(3, 3), (3, 2), (1, 3), (3, 0), (2, 2), (3, 1)]:
                if (pp and tp > pp) or (pq and tq > pq):
                    continue
                jobs.append(("trio", 3, pp, pq, tp, tq, 0, 10 ** 6))
    for k in range(6):
        jobs.append(("pederr", k, 3000))
    jobs.append(("gamete", 0, 1000))
    jobs.append(("walker", 0, 1000))
    jobs.sort(key=lambda j: -j[-1])
    return jobs


def run_job(job):
    return {"trio": job_trio, "gamete": job_gamete, "walker": job_walker, "pederr": job_pederr}[job[0]](job)


def job_trio(job):
    from mchap.pedigree.prior import trio_log_pmf
    from mchap.pedigree.validation import trio_valid, duo_valid

    _, nA, pl_p, pl_q, tau_p, tau_q, fi, _ = job
    r = Result()
    payload = {"kind": "job", "job": job}
    alleles = list(range(nA))
    fr = (FREQS3 if nA == 3 else FREQS4)[fi % (5 if nA == 3 else 2)]
    freqs = {a: fr[a] for a in alleles}
    logf = np.log(np.array(fr))
    k = tau_p + tau_q
    n = max(k, pl_p, pl_q, 1)
    sc = scratch(n)

    def pad(g):
        return np.array(list(g) + [-1] * (n - len(g)), np.int64)

    Ps = ref.multisets(alleles, pl_p) if pl_p else [None]
    Qs = ref.multisets(alleles, pl_q) if pl_q else [None]
    progs = ref.multisets(alleles, k)
    lam_ps = LAMS if (tau_p == 2 and pl_p) else [0.0]
    lam_qs = LAMS if (tau_q == 2 and pl_q) else [0.0]
    # a known parent with tau = 0 (clone / unreduced gamete from the other side) still carries the user's error rate; it must not matter
    errs_p = ERRS if pl_p and tau_p else ([1.0] if not pl_p else [0.0, 0.2, 1.0])
    errs_q = ERRS if pl_q and tau_q else ([1.0] if not pl_q else [0.0, 0.2, 1.0])
    tag0 = "A=%d|ploidy=(%d,%d)|tau=(%d,%d)|freq=%d" % (nA, pl_p, pl_q, tau_p, tau_q, fi)
    for lam_p in lam_ps:
        for lam_q in lam_qs:
            for err_p in errs_p:
                for err_q in errs_q:
                    for P in Ps:
                        for Q in Qs:
                            want = ref.trio_pmf(P, Q, tau_p, tau_q, lam_p, lam_q, err_p, err_q, alleles, freqs)
                            tot = 0.0
                            tag = "%s|lambda=(%g,%g)|err=(%g,%g)|P=%s|Q=%s" % (tag0, lam_p, lam_q, err_p, err_q, P, Q)
                            pa = pad(P) if P is not None else pad(())
                            qa = pad(Q) if Q is not None else pad(())
                            for prog in progs:
                                lp = trio_log_pmf(pad(prog), pa, qa, pl_p, pl_q, tau_p, tau_q, lam_p, lam_q, err_p, err_q, logf, *sc)
                                p = math.exp(lp) if lp > -math.inf else 0.0
                                tot += p
                                w = want.get(prog, 0.0)
                                r.evaluations += 1
                                if (tau_p and tau_q) or P is not None or Q is not None:
                                    r.nontrivial += 1
                                r.maxi("pmf_abs_err", abs(p - w))
                                if abs(p - w) > 1e-9 or (w == 0) != (p == 0):
                                    r.violation("trio-pmf|%s|progeny=%s" % (tag, prog), "trio_log_pmf gives %.12g, brute-force inheritance %.12g" % (p, w), payload)
                                # validity iff positive at zero error
                                if err_p == 0.0 and err_q == 0.0 and P is not None and Q is not None and tau_p > 0 and tau_q > 0:
                                    v = bool(trio_valid(np.array(prog), np.array(P), np.array(Q), tau_p, tau_q, lam_p, lam_q))
                                    if v != (p > 0):
                                        r.violation("trio-valid|%s|progeny=%s" % (tag, prog), "trio_valid=%s but probability=%g" % (v, p), payload)
                                    r.outcome(("v", v))
                                elif err_p == 0.0 and P is not None and Q is None and tau_p > 0 and tau_q > 0 and lam_q == 0:
                                    v = bool(duo_valid(np.array(prog), np.array(P), tau_p, lam_p))
                                    if v != (p > 0):
                                        r.violation("duo-valid|%s|progeny=%s" % (tag, prog), "duo_valid=%s but probability=%g" % (v, p), payload)
                                elif err_q == 0.0 and Q is not None and P is None and tau_p > 0 and tau_q > 0 and lam_p == 0:
                                    v = bool(duo_valid(np.array(prog), np.array(Q), tau_q, lam_q))
                                    if v != (p > 0):
                                        r.violation("duo-valid|%s|progeny=%s" % (tag, prog), "duo_valid=%s but probability=%g" % (v, p), payload)
                            if abs(tot - 1) > 1e-9:
                                r.violation("trio-sum|" + tag, "probabilities sum to %.12g over all %d progeny genotypes" % (tot, len(progs)), payload)
                            r.outcome(round(tot, 9))
    r.sample({"alleles": nA, "parent_ploidy": (pl_p, pl_q), "tau": (tau_p, tau_q), "freqs": fr, "parents_enumerated": len(Ps) * len(Qs), "progeny": len(progs)}, cap=1)
    return r


def job_gamete(job):
    from mchap.pedigree.prior import gamete_log_pmf

    r = Result()
    payload = {"kind": "job", "job": job}
    for ploidy in (2, 3, 4, 6):
        for P in ref.multisets(range(3), ploidy):
            uniq = sorted(set(P))
            pd = np.array([P.count(a) for a in uniq], np.int64)
            for tau in range(1, ploidy + 1):
                for lam in (LAMS if tau == 2 else [0.0]):
                    want = ref.gamete_dist(P, tau, lam)
                    tot = 0.0
                    for g in ref.multisets(uniq, tau):
                        gd = np.array([g.count(a) for a in uniq], np.int64)
                        if np.any(gd > pd) and not (lam > 0):
                            # outside the support of a plain gamete; the function is only called within constraints
                            continue
                        if lam > 0 and np.any(gd > np.maximum(pd, 2 * (pd >= 1))):
                            continue
                        lp = gamete_log_pmf(gd, tau, pd, ploidy, lam)
                        p = math.exp(lp) if lp > -math.inf else 0.0
                        tot += p
                        r.evaluations += 1
                        r.nontrivial += 1
                        if abs(p - want.get(g, 0.0)) > 1e-12:
                            r.violation("gamete-pmf|parent=%s|tau=%d|lambda=%g|gamete=%s" % (P, tau, lam, g),
                                        "gamete_log_pmf gives %.12g, reference %.12g" % (p, want.get(g, 0.0)), payload)
                    if abs(tot - 1) > 1e-12:
                        r.violation("gamete-sum|parent=%s|tau=%d|lambda=%g" % (P, tau, lam), "gamete probabilities sum to %.12g" % tot, payload)
                    r.outcome((P, tau, lam, round(tot, 9)))
    r.sample({"gamete_pmf": True, "parent": (0, 0, 1, 2), "tau": 2, "lambda": 0.2, "dist": {str(k): v for k, v in ref.gamete_dist((0, 0, 1, 2), 2, 0.2).items()}})
    return r


def job_walker(job):
    """set_initial_dosage + increment_dosage visit every dosage vector <= constraint with the given sum exactly once."""
    from mchap.pedigree.prior import increment_dosage, set_initial_dosage

    r = Result()
    payload = {"kind": "job", "job": job}
    for m in (1, 2, 3, 4):
        for cons in itertools.product(range(4), repeat=m):
            for tau in range(1, sum(cons) + 1):
                want = sorted(v for v in itertools.product(*[range(c + 1) for c in cons]) if sum(v) == tau)
                c = np.array(cons, np.int64)
                d = np.zeros(m, np.int64)
                set_initial_dosage(tau, c, d)
                seen = [tuple(int(x) for x in d)]
                r.states += 1
                while True:
                    try:
                        increment_dosage(d, c)
                    except Exception:
                        break
                    seen.append(tuple(int(x) for x in d))
                    r.transitions += 1
                    r.states += 1
                    if len(seen) > len(want) + 5:
                        break
                r.evaluations += 1
                r.nontrivial += 1
                if sorted(seen) != want or len(set(seen)) != len(seen):
                    r.violation("dosage-walker|constraint=%s|tau=%d" % (cons, tau), "walker visited %r, expected each of %r once" % (seen[:12], want[:12]), payload)
                r.outcome((cons, tau, len(seen)))
    r.sample({"walker": True, "constraint": (2, 1, 2), "tau": 3})
    return r


def job_pederr(job):
    """PEDERR as the trace class computes it: for every trio / duo (mixed ploidy, padded storage) the incongruence of a one-step
    trace is 0 exactly when the zero-error inheritance probability is positive"""
    from mchap.pedigree.classes import PedigreeAllelesMultiTrace
    from mchap.pedigree.prior import trio_log_pmf

    _, k, _ = job
    r = Result()
    payload = {"kind": "job", "job": job}
    shapes_ = [((4, 2, 3), (2, 1), (0.0, 0.0)), ((2, 4, 3), (1, 2), (0.0, 0.0)), ((2, 2, 2), (1, 1), (0.0, 0.0)), ((4, 4, 4), (2, 2), (0.2, 0.0)),
               ((4, 2, 3), (2, 1), (0.3, 0.0)), ((2, 4, 4), (1, 3), (0.0, 0.0))]
    (pl_p, pl_q, pl_c), (tau_p, tau_q), (lam_p, lam_q) = shapes_[k]
    alleles = [0, 1, 2, 3] if max(pl_p, pl_q) <= 2 else [0, 1, 2]
    fr = [1.0 / len(alleles)] * len(alleles)
    logf = np.log(np.array(fr))
    maxp = max(pl_p, pl_q, pl_c)
    sc = scratch(maxp)
    ploidy = np.array([pl_p, pl_q, pl_c])
    tau = np.array([[pl_p // 2, pl_p - pl_p // 2], [pl_q // 2, pl_q - pl_q // 2], [tau_p, tau_q]])
    lam = np.array([[0.0, 0.0], [0.0, 0.0], [lam_p, lam_q]])

    def pad(g):
        return np.array(list(g) + [-1] * (maxp - len(g)), np.int64)

    for layout, parents in (("trio", [(-1, -1), (-1, -1), (0, 1)]), ("duo-p", [(-1, -1), (-1, -1), (0, -1)]), ("duo-q", [(-1, -1), (-1, -1), (-1, 1)])):
        par = np.array(parents)
        for P in ref.multisets(alleles, pl_p):
            for Q in ref.multisets(alleles, pl_q):
                for C in ref.multisets(alleles, pl_c):
                    trace = np.full((1, 1, 3, maxp), -1, np.int16)
                    trace[0, 0, 0, :pl_p] = P
                    trace[0, 0, 1, :pl_q] = Q
                    trace[0, 0, 2, :pl_c] = C
                    got = PedigreeAllelesMultiTrace(trace, n_allele=len(alleles)).incongruence(ploidy, par, tau, lam)
                    pp, qq = par[2]
                    lp = trio_log_pmf(pad(C), pad(P) if pp >= 0 else pad(()), pad(Q) if qq >= 0 else pad(()), pl_p if pp >= 0 else 0, pl_q if qq >= 0 else 0,
                                      tau_p, tau_q, lam_p, lam_q, 0.0 if pp >= 0 else 1.0, 0.0 if qq >= 0 else 1.0, logf, *sc)
                    want = ref.trio_pmf(P if pp >= 0 else None, Q if qq >= 0 else None, tau_p, tau_q, lam_p, lam_q, 0.0, 0.0, alleles, {a: fr[a] for a in alleles}).get(C, 0.0)
                    r.evaluations += 1
                    r.nontrivial += 1
                    valid = want > 0
                    if (lp > -math.inf) != valid:
                        r.violation("pederr-pmf|%s|ploidy=%s" % (layout, (pl_p, pl_q, pl_c)), "zero-error probability %g, reference %g for %r x %r -> %r" % (math.exp(lp) if lp > -math.inf else 0.0, want, P, Q, C), payload)
                    if got[0] != 0 or got[1] != 0 or (got[2] == 0) != valid:
                        r.violation("pederr|%s|ploidy=%s|tau=%s|lambda=%s" % (layout, (pl_p, pl_q, pl_c), (tau_p, tau_q), (lam_p, lam_q)),
                                    "PEDERR %r for parents %r x %r and progeny %r; the zero-error inheritance probability is %g (valid=%s)" % (got.tolist(), P, Q, C, want, valid), payload)
                    r.outcome((layout, valid))
    r.sample({"pederr": "one-step traces", "ploidy": (pl_p, pl_q, pl_c), "tau": (tau_p, tau_q), "lambda": (lam_p, lam_q)})
    return r
