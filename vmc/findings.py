"""known_findings.jsonl: committed, never written at run time.

Each line is one JSON object:
  {"status": "known", "property": "Cxx", "match": "<regex on the violation key>", "what": "<text>"}
  {"status": "fixed", "property": "Cxx", "commit": "<sha>", "what": "<text>"}
A `fixed` entry suppresses nothing.  A `known` entry suppresses exactly the violations whose
case key fully matches its regex; anything else of the same property is still reported.
"""
import json
import pathlib
import re

FILE = pathlib.Path(__file__).resolve().parent.parent / "known_findings.jsonl"


def load(pid):
    known, fixed = [], []
    if FILE.exists():
        for line in FILE.read_text().splitlines():
            line = line.strip()
            if not line or line.startswith("#"):
                continue
            e = json.loads(line)
            if e.get("property") != pid:
                continue
            (known if e.get("status") == "known" else fixed).append(e)
    return known, fixed


def match(known, key):
    for k in known:
        if re.fullmatch(k["match"], key):
            return k
    return None
