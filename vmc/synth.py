"""Synthetic FASTA / SNV-VCF / BED / BAM builder and an independent CIGAR-walking pileup reference.

Nothing here calls mchap.  BAM records are built with pysam.AlignedSegment; MD tags are computed here
(needed by get_aligned_pairs(with_seq=True))."""
import contextlib
import io
import os
import sys

import pysam

OPS = {"M": 0, "I": 1, "D": 2, "N": 3, "S": 4, "H": 5}
REF = {
    "chr1": "ACGTTGCAAGCTTAGCCATGGATCCGTACGATTGCAACGTAGCTAGGCTTAACGGATCCA",
    "chr2": "TTGACCGATAGGCTAACGTTAGCATCGGATTACGCTAGGATCCATGCAAGTCGATCGTAA",
}


def write_ref(d, ref=None):
    ref = ref or REF
    p = os.path.join(d, "ref.fa")
    with open(p, "w") as f:
        for k, v in ref.items():
            f.write(">%s\n%s\n" % (k, v))
    pysam.faidx(p)
    return p


def bgzip_tabix(path, preset="vcf"):
    """bgzip + tabix; returns the .gz path (pysam.tabix_index deletes the uncompressed input)"""
    pysam.tabix_index(path, preset=preset, force=True)
    return path + ".gz"


def write_snvs(d, snvs, ref=None, name="snvs.vcf"):
    """snvs: list of (contig, pos0, ref_base, alts tuple)"""
    ref = ref or REF
    p = os.path.join(d, name)
    with open(p, "w") as f:
        f.write("##fileformat=VCFv4.3\n")
        for k, v in ref.items():
            f.write("##contig=<ID=%s,length=%d>\n" % (k, len(v)))
        f.write("#CHROM\tPOS\tID\tREF\tALT\tQUAL\tFILTER\tINFO\n")
        order = {k: i for i, k in enumerate(ref)}
        for c, pos, r, alts in sorted(snvs, key=lambda s: (order[s[0]], s[1])):
            f.write("%s\t%d\t.\t%s\t%s\t.\t.\t.\n" % (c, pos + 1, r, ",".join(alts)))
    return bgzip_tabix(p)


def write_bed(d, loci, name="targets.bed"):
    p = os.path.join(d, name)
    with open(p, "w") as f:
        for c, s, e, n in loci:
            f.write("%s\t%d\t%d\t%s\n" % (c, s, e, n))
    return p


def md_tag(ref_seq, pos, cigar, seq):
    md = ""
    run = 0
    r = pos
    q = 0
    for o, n in cigar:
        if o == "M":
            for _ in range(n):
                if seq[q].upper() == ref_seq[r].upper():
                    run += 1
                else:
                    md += str(run) + ref_seq[r]
                    run = 0
                q += 1
                r += 1
        elif o in "IS":
            q += n
        elif o == "D":
            md += str(run) + "^" + ref_seq[r:r + n]
            run = 0
            r += n
        elif o == "N":
            r += n
    return md + str(run)


def mkread(hdr, name, contig, pos, cigar, seq, flag=0, mapq=60, rg="rg1", qual=30, ref=None, md=None,
           mate_pos=None, tlen=0, no_rg=False):
    ref = ref or REF
    a = pysam.AlignedSegment(hdr)
    a.query_name = name
    a.flag = flag
    a.reference_id = hdr.get_tid(contig)
    a.reference_start = pos
    a.mapping_quality = mapq
    a.query_sequence = seq
    a.cigartuples = [(OPS[o], n) for o, n in cigar]
    a.query_qualities = pysam.qualitystring_to_array(chr(33 + qual) * len(seq))
    if mate_pos is not None:
        a.next_reference_id = a.reference_id
        a.next_reference_start = mate_pos
        a.template_length = tlen
    a.set_tag("MD", md if md is not None else md_tag(ref[contig], pos, cigar, seq))
    if not no_rg:
        a.set_tag("RG", rg)
    return a


def write_bam(path, sample_rgs, reads, ref=None, sort=True):
    """sample_rgs: list of (rgid, sample); reads: list of dicts of mkread keyword arguments"""
    ref = ref or REF
    hdr = pysam.AlignmentHeader.from_dict({
        "HD": {"VN": "1.6", "SO": "coordinate"},
        "SQ": [{"SN": k, "LN": len(v)} for k, v in ref.items()],
        "RG": [{"ID": i, "SM": s} for i, s in sample_rgs],
    })
    segs = [mkread(hdr, ref=ref, **r) for r in reads]
    if sort:
        segs = sorted(segs, key=lambda a: (a.reference_id, a.reference_start))  # stable
    with pysam.AlignmentFile(path, "wb", header=hdr) as f:
        for a in segs:
            f.write(a)
    pysam.index(path)
    return path


def hap_seq(contig, start, length, snvs, alleles, ref=None):
    """reference sequence with the given allele index (None = reference) at each SNV inside the window"""
    ref = ref or REF
    s = list(ref[contig][start:start + length])
    for (c, pos, r, alts), al in zip(snvs, alleles):
        if c == contig and start <= pos < start + length and al is not None:
            s[pos - start] = ([r] + list(alts))[al]
    return "".join(s)


# ----------------------------------------------------------------------------- reference pileup
def walk(read, positions):
    """read: dict(pos, cigar, seq); positions: reference coordinates (0-based).
    Returns {position: base or '-'}: the query base aligned (M) to each position; '-' when the position is
    not covered, deleted, skipped, clipped."""
    out = {p: "-" for p in positions}
    r = read["pos"]
    q = 0
    for o, n in read["cigar"]:
        if o == "M":
            for i in range(n):
                if r + i in out:
                    out[r + i] = read["seq"][q + i]
            r += n
            q += n
        elif o == "I" or o == "S":
            q += n
        elif o == "D" or o == "N":
            r += n
        elif o == "H":
            pass
    return out


def ref_span(read):
    r = read["pos"]
    for o, n in read["cigar"]:
        if o in "MDN":
            r += n
    return read["pos"], r


# ----------------------------------------------------------------------------- running programs in-process
def run_prog(mod, argv):
    """mod.program.cli(argv).run_stdout() with stdout captured; argv like ['mchap', 'assemble', ...]"""
    buf = io.StringIO()
    with contextlib.redirect_stdout(buf):
        mod.program.cli(argv).run_stdout()
    return buf.getvalue()


def root_cause(e):
    while e.__cause__ is not None:
        e = e.__cause__
    return e
