"""Scratch directories and cache warm-up."""
import atexit
import os
import pathlib
import shutil
import tempfile
import time
import warnings

VERIF = pathlib.Path(__file__).resolve().parent.parent
SCRATCH = VERIF / ".scratch"


def scratch_dir(prefix="s"):
    SCRATCH.mkdir(exist_ok=True)
    d = tempfile.mkdtemp(prefix=prefix + "-", dir=str(SCRATCH))
    pid = os.getpid()

    def _rm():
        if os.getpid() == pid:
            shutil.rmtree(d, ignore_errors=True)

    atexit.register(_rm)
    return pathlib.Path(d)


def quiet():
    """mchap.application.baseclass turns RuntimeWarning into errors process-wide; undo it for
    harness code (the repository code is still run under its own filter where relevant)."""
    warnings.resetwarnings()
    warnings.simplefilter("ignore")


import contextlib


@contextlib.contextmanager
def app_warnings():
    """Run repository *application* code under the filter the CLI runs under (baseclass.py executes
    warnings.simplefilter("error", RuntimeWarning) at import), then restore the harness' quiet filter."""
    with warnings.catch_warnings():
        warnings.resetwarnings()
        warnings.simplefilter("ignore")
        warnings.simplefilter("error", RuntimeWarning)
        yield
    quiet()


def dirty_heap(value=0.4375):
    """numpy keeps freed small blocks (< 1 KiB) in per-size buckets and hands them out again unchanged; glibc does the same for somewhat larger ones.
    Filling and freeing blocks of every small size makes 'uninitialised' memory deterministic non-zero garbage, so an output that depends on what ran
    earlier in the process (np.empty where np.zeros was meant) shows up on every run instead of only after particular histories."""
    import numpy as np

    junk = [np.full(n, value) for n in range(1, 600)] + [np.full(n, value) for n in (700, 1000, 1500, 2500, 4000)]
    junk += [np.full(n, 57, np.int8) for n in range(1, 1024, 7)]
    del junk


def setup():
    """Warm the numba cache for the current /repo tree (used by MANIFEST.setup_cmd)."""
    import importlib

    t0 = time.time()
    # stale scratch from killed runs
    if SCRATCH.exists():
        for p in SCRATCH.iterdir():
            shutil.rmtree(p, ignore_errors=True)
    from .run import ALL

    for pid in ALL:
        try:
            mod = importlib.import_module("vmc.checks." + pid.lower())
        except ModuleNotFoundError:
            continue
        if hasattr(mod, "warm"):
            t1 = time.time()
            mod.warm("quick")
            print("warm %s %.1fs" % (pid, time.time() - t1), flush=True)
        if hasattr(mod, "setup_extra"):  # compile the signatures only the command-line flows reach (done once at setup, not on every run)
            t1 = time.time()
            try:
                mod.setup_extra()
            except BaseException as e:  # noqa
                print("setup_extra %s raised %s: %s (left to the check)" % (pid, type(e).__name__, str(e)[:200]), flush=True)
            print("setup_extra %s %.1fs" % (pid, time.time() - t1), flush=True)
    print("setup done in %.1fs, numba cache %s" % (time.time() - t0, os.environ.get("NUMBA_CACHE_DIR")))
    return 0
