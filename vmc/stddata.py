"""A standard synthetic data set whose loci hit every record shape, and helpers to run the programs in-process.

Loci (BED):  L1 chr1:8-30   3 SNVs (one tri-allelic), several haplotypes  -> >2 ALT, mixed ploidy
             L2 chr1:50-58  no SNV inside                                 -> ALT-less, SNV-less record
             L3 chr2:5-25   2 SNVs, reference haplotype absent everywhere -> REFMASKED
             L4 chr2:34-48  1 SNV, no read covers it                      -> no reads
             L5 chr1:36-48  2 SNVs, every read is reference               -> ALT-less record *with* SNVs
             L6 chr2:49-59  6 SNVs, no reads                              -> nothing reaches the threshold: REFMASKED + NOA, no ALT
             L7 chr2:26-33  2 SNVs, every read carries the same non-reference haplotype -> REFMASKED with a single ALT
Samples: S1 (ploidy 4, deep), S2 (ploidy 2), S3 (ploidy 6, shallow)."""
import os

import numpy as np

from . import synth
from .synth import REF

SNVS = [
    ("chr1", 12, REF["chr1"][12], None), ("chr1", 17, REF["chr1"][17], None), ("chr1", 22, REF["chr1"][22], None),
    ("chr1", 40, REF["chr1"][40], None), ("chr1", 44, REF["chr1"][44], None),
    ("chr2", 10, REF["chr2"][10], None), ("chr2", 14, REF["chr2"][14], None), ("chr2", 40, REF["chr2"][40], None),
] + [("chr2", p, REF["chr2"][p], None) for p in (50, 51, 53, 54, 56, 57)] + [("chr2", p, REF["chr2"][p], None) for p in (28, 31)] + [
    # SNVs on the base just before and just after locus L2 (chr1:50-58): they belong to no locus, whatever coordinate convention a fetch uses
    ("chr1", 49, REF["chr1"][49], None), ("chr1", 58, REF["chr1"][58], None)]


def _alts(base, n):
    return tuple([b for b in "ACGT" if b != base][:n])


SNVS = [(c, p, r, _alts(r, 2 if (c, p) == ("chr1", 17) else 1)) for (c, p, r, _) in SNVS]
LOCI = [("chr1", 8, 30, "L1"), ("chr1", 36, 48, "L5"), ("chr1", 50, 58, "L2"), ("chr2", 5, 25, "L3"), ("chr2", 26, 33, "L7"), ("chr2", 34, 48, "L4"), ("chr2", 49, 59, "L6")]
PLOIDY = {"S1": 4, "S2": 2, "S3": 6, "S0": 2}
RG = {"S1": "rg1", "S2": "rg2", "S3": "rg3", "S0": "rg0"}
HAPS = {
    "S1": {"L1": [(0, 0, 0), (1, 1, 0), (1, 2, 1), (0, 0, 0)], "L3": [(1, 1), (1, 0)]},
    "S2": {"L1": [(1, 1, 0), (1, 2, 1)], "L3": [(1, 1)]},
    "S3": {"L1": [(0, 0, 0)], "L3": [(1, 0), (0, 1)]},
    "S0": {"L1": [], "L3": []},   # optional extra sample with no read at the loci that hold called SNVs (only at L5)
}
DEPTH = {"S1": 36, "S2": 12, "S3": 8, "S0": 6}  # S1: 144 identical reads at L5 (counts beyond 127)


def locus_snvs(name):
    c, s, e, _ = [l for l in LOCI if l[3] == name][0]
    return [v for v in SNVS if v[0] == c and s <= v[1] < e]


def sample_reads(sample, depth=None, prefix=None, haps=None):
    depth = depth or DEPTH[sample]
    prefix = prefix or sample.lower()
    haps = haps or HAPS[sample]
    rg = RG.get(sample, "rg1")
    out = []
    l1, l3, l5, l7 = locus_snvs("L1"), locus_snvs("L3"), locus_snvs("L5"), locus_snvs("L7")
    for i in range(depth):
        if haps["L1"]:
            h = haps["L1"][i % len(haps["L1"])]
            st = 8 + (i % 3)
            out.append(dict(name="%sa%d" % (prefix, i), contig="chr1", pos=st, cigar=[("M", 20)], seq=synth.hap_seq("chr1", st, 20, l1, h), rg=rg))
        for k in range(3 if haps["L3"] else 0):
            h = haps["L3"][(i + k) % len(haps["L3"])]
            st = 5 + (k % 2)
            out.append(dict(name="%sb%d_%d" % (prefix, i, k), contig="chr2", pos=st, cigar=[("M", 18)], seq=synth.hap_seq("chr2", st, 18, l3, h), rg=rg))
        if haps["L1"] or haps["L3"]:  # samples with reads at the called loci are all fixed for the same non-reference haplotype at L7
            for k in range(3):
                out.append(dict(name="%sd%d_%d" % (prefix, i, k), contig="chr2", pos=25 - (k % 2), cigar=[("M", 10)],
                                seq=synth.hap_seq("chr2", 25 - (k % 2), 10, l7, haps.get("L7", [(1, 1)])[0]), rg=rg))
        for k in range(4):
            st = 36 - (k % 2)
            out.append(dict(name="%sc%d_%d" % (prefix, i, k), contig="chr1", pos=st, cigar=[("M", 22)], seq=REF["chr1"][st:st + 22], rg=rg))
    return out


class Data:
    def __init__(self, d, samples=("S1", "S2", "S3")):
        self.dir = str(d)
        os.makedirs(self.dir, exist_ok=True)
        self.samples = list(samples)
        self.ref = synth.write_ref(self.dir)
        self.snv_vcf = synth.write_snvs(self.dir, SNVS)
        self.bed = synth.write_bed(self.dir, LOCI)
        self.bams = {}
        for s in samples:
            self.bams[s] = synth.write_bam(os.path.join(self.dir, s + ".bam"), [(RG[s], s)], sample_reads(s))
        self.ploidy_file = os.path.join(self.dir, "ploidy.txt")
        with open(self.ploidy_file, "w") as f:
            # lines deliberately in another order than the samples: values must be looked up by name, never by position
            for s in list(samples)[1:] + list(samples)[:1]:
                f.write("%s\t%d\n" % (s, PLOIDY[s]))

    def bed_subset(self, names, fname):
        rows = [[l for l in LOCI if l[3] == n][0] for n in names]
        return synth.write_bed(self.dir, rows, fname)

    # ---- argument lists
    def base_args(self, samples=None):
        samples = samples or self.samples
        return ["--bam"] + [self.bams[s] for s in samples] + ["--reference", self.ref, "--ploidy", self.ploidy_file]

    def assemble_args(self, samples=None, bed=None, report=(), extra=()):
        a = self.base_args(samples) + ["--targets", bed or self.bed, "--variants", self.snv_vcf, "--mcmc-steps", "120", "--mcmc-burn", "60"]
        if report:
            a += ["--report"] + list(report)
        return ["mchap", "assemble"] + a + list(extra)

    def call_args(self, prog, haplotypes, samples=None, report=(), extra=()):
        a = self.base_args(samples) + ["--haplotypes", haplotypes]
        if prog in ("call", "call-pedigree"):
            a += ["--mcmc-steps", "120", "--mcmc-burn", "60"]
        if report:
            a += ["--report"] + list(report)
        return ["mchap", prog] + a + list(extra)

    def pedigree_files(self):
        ped = os.path.join(self.dir, "ped.txt")
        tau = os.path.join(self.dir, "tau.txt")
        with open(ped, "w") as f:
            f.write("S1\t.\t.\nS2\t.\t.\nS3\tS1\tS2\n")
        with open(tau, "w") as f:
            f.write("S1\t2\t2\nS2\t1\t1\nS3\t4\t2\n")
        return ["--sample-parents", ped, "--gamete-ploidy", tau]

    def save_vcf(self, text, name):
        p = os.path.join(self.dir, name)
        with open(p, "w") as f:
            f.write(text)
        return synth.bgzip_tabix(p)


def modules():
    from mchap.application import assemble, call, call_exact, call_pedigree

    return {"assemble": assemble, "call": call, "call-exact": call_exact, "call-pedigree": call_pedigree}


def run(argv):
    """run `mchap <prog> ...` in-process; returns stdout text"""
    from . import env

    env.dirty_heap()
    with env.app_warnings():
        return synth.run_prog(modules()[argv[1]], argv)


def records(text):
    return [l for l in text.splitlines() if l and not l.startswith("#")]


def header(text):
    return [l for l in text.splitlines() if l.startswith("#")]
