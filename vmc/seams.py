"""Owning the random seams of mchap's samplers.

The samplers are numba dispatchers; their `.py_func` is the same source executed as plain Python,
which looks up `random_choice`, `np`, ... as *module globals at call time*.  We replace those
globals by an Oracle that records what the code hands to the seam (the probability vector) and
forces each possible answer in turn.  Rule (see DESIGN 2.1): dispatchers are compiled first; patches
are active only inside `patched(...)` and are restored before any dispatcher is invoked.
"""
import contextlib
import itertools
import math

import numpy as np


class SeamDivergence(Exception):
    """Replaying an answer prefix met a different seam sequence: nondeterminism we do not own."""


_ACTIVE = []  # stack of [(module, name, original, patched value)] currently applied


@contextlib.contextmanager
def patched(*triples):
    """patched((module, 'name', value), ...)"""
    saved = []
    _ACTIVE.append(saved)
    try:
        for mod, name, val in triples:
            saved.append((mod, name, getattr(mod, name), val))
            setattr(mod, name, val)
        yield
    finally:
        for mod, name, old, _ in reversed(saved):
            setattr(mod, name, old)
        _ACTIVE.remove(saved)


@contextlib.contextmanager
def unpatched():
    """Temporarily restore every active patch (used by recording wrappers around *jitted* functions: if numba
    has to compile a new signature while a module global is patched it would try to type the oracle)."""
    flat = [e for saved in _ACTIVE for e in saved]
    try:
        for mod, name, old, _ in reversed(flat):
            setattr(mod, name, old)
        yield
    finally:
        for mod, name, _, val in flat:
            setattr(mod, name, val)


class Oracle:
    """Answers every seam from `script` (then `default`), logging (kind, arity, answer, weights)."""

    def __init__(self, script=(), expect=None, rand_values=(0.0, 1.0 - 2.0**-53), perm_mode="all", default="first"):
        self.script = list(script)
        self.expect = expect  # [(kind, arity)] recorded when the prefix was discovered
        self.pos = 0
        self.log = []
        self.rand_values = tuple(rand_values)
        self.perm_mode = perm_mode
        self.default = default

    # ---- internals
    def _answer(self, kind, arity, weights=None):
        i = len(self.log)
        if self.expect is not None and i < len(self.expect):
            if tuple(self.expect[i]) != (kind, arity):
                raise SeamDivergence("seam %d: expected %r got %r" % (i, self.expect[i], (kind, arity)))
        if self.pos < len(self.script):
            a = self.script[self.pos]
            self.pos += 1
            if not (0 <= a < arity):
                raise SeamDivergence("answer %r out of range for %s/%d" % (a, kind, arity))
        else:
            a = 0 if self.default == "first" else arity - 1
            if weights is not None and self.default == "first":
                # first answer with positive weight
                for k in range(arity):
                    if weights[k] > 0:
                        a = k
                        break
        self.log.append((kind, arity, a, None if weights is None else tuple(float(w) for w in weights)))
        return a

    # ---- seam replacements
    def random_choice(self, p):
        """stand-in for mchap.jitutils.random_choice(probabilities)"""
        p = np.array(p, dtype=float, copy=True)
        return self._answer("choice_p", len(p), p)

    def rand(self):
        return self.rand_values[self._answer("rand", len(self.rand_values))]

    random = rand

    def randint(self, *args):
        if len(args) == 1:
            lo, hi = 0, args[0]
        else:
            lo, hi = args[0], args[1]
        n = int(hi - lo)
        return int(lo) + self._answer("randint", n, [1.0 / n] * n)

    def choice(self, options, size=None, replace=True, p=None):
        """np.random.choice: one seam per drawn element (with replacement; without replacement the weights are renormalised over what is left)"""
        options = np.arange(options) if isinstance(options, (int, np.integer)) else np.asarray(options)
        n = len(options)
        w = [1.0 / n] * n if p is None else [float(x) for x in p]
        if size is None:
            return options[self._answer("choice_u" if p is None else "choice_w", n, w)]
        k = int(np.prod(size))
        out, left = [], list(range(n))
        for _ in range(k):
            ww = [w[i] for i in left]
            tot = sum(ww)
            a = self._answer("choice_u" if p is None else "choice_w", len(left), [x / tot for x in ww])
            out.append(options[left[a]])
            if not replace:
                left.pop(a)
        return np.array(out).reshape(size)

    def _perms(self, n):
        if self.perm_mode == "all" and n <= 6:
            return list(itertools.permutations(range(n)))
        ident = tuple(range(n))
        return [ident, tuple(reversed(ident))] if n > 1 else [ident]

    def shuffle(self, x):
        n = len(x)
        ps = self._perms(n)
        w = [1.0 / math.factorial(n)] * len(ps) if len(ps) == math.factorial(n) else None
        perm = ps[self._answer("shuffle", len(ps), w)]
        x[:] = np.array(x)[list(perm)]

    def permutation(self, x):
        x = np.array(x)
        n = len(x)
        ps = self._perms(n)
        w = [1.0 / math.factorial(n)] * len(ps) if len(ps) == math.factorial(n) else None
        perm = ps[self._answer("permutation", len(ps), w)]
        return x[list(perm)]

    def seed(self, *_):
        self.log.append(("seed", 1, 0, None))

    # ---- results
    def probability(self):
        """product of the weights of the answers taken (None if some seam has no weights)"""
        p = 1.0
        for kind, arity, a, w in self.log:
            if kind == "seed":
                continue
            if w is None:
                return None
            p *= w[a]
        return p


class NumpyProxy:
    """Stand-in for a module's global `np` whose `.random` is the oracle."""

    def __init__(self, oracle):
        self.random = oracle

    def __getattr__(self, k):
        return getattr(np, k)


def explore(run, rand_values=(0.0, 1.0 - 2.0**-53), perm_mode="all", skip_zero_weight=True, limit=200000):
    """Depth-first enumeration of every answer sequence of `run(oracle)`.

    Yields (oracle, result).  `run` must be deterministic given the answers; a replayed prefix
    that meets a different seam sequence raises SeamDivergence (hard error)."""
    stack = [([], None)]
    n = 0
    while stack:
        prefix, expect = stack.pop()
        o = Oracle(prefix, expect, rand_values=rand_values, perm_mode=perm_mode)
        res = run(o)
        if o.pos != len(prefix):
            raise SeamDivergence("prefix of %d answers, only %d consumed" % (len(prefix), o.pos))
        n += 1
        if n > limit:
            raise RuntimeError("explore: more than %d executions" % limit)
        yield o, res
        seams = [e for e in o.log if e[0] != "seed"]
        sig = [(e[0], e[1]) for e in seams]
        for i in range(len(prefix), len(seams)):
            kind, arity, a, w = seams[i]
            for alt in range(arity):
                if alt == a:
                    continue
                if skip_zero_weight and w is not None and w[alt] <= 0.0:
                    continue
                stack.append(([e[2] for e in seams[:i]] + [alt], sig[: i + 1]))
