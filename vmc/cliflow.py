"""Command line -> program -> sampler: every sample is analysed with *its own* parameters.

The kernels are checked on explicit instances (engine K) and the layers between sampler class and kernel by
vmc/handoff.py; this module closes the top of the chain.  The real `program.cli(argv).run_stdout()` runs in-process
on the standard synthetic data set with per-sample parameter files whose values differ for every sample (and for
the two parental columns), with the BAM arguments in two orders and the files' lines in a third; the sampler class is
replaced by a recording subclass.  What each sampler object is given must be what the files say for the sample whose
reads it is fitted to."""
import math
import os

import numpy as np

from . import env, stddata, synth, vcfparse
from . import refmodel as ref
from .seams import patched

FVAL = {"S1": 0.1, "S2": 0.3, "S3": 0.05}
ORDERS = (("S1", "S2", "S3"), ("S3", "S1", "S2"))
FILE_ORDER = ("S2", "S3", "S1")


def write_map(D, name, rows):
    p = os.path.join(D.dir, name)
    with open(p, "w") as f:
        for row in rows:
            f.write("\t".join(str(x) for x in row) + "\n")
    return p


def base_files(D):
    plo = write_map(D, "ploidy_shuffled.txt", [(s, stddata.PLOIDY[s]) for s in FILE_ORDER])
    inb = write_map(D, "inbreeding.txt", [(s, FVAL[s]) for s in FILE_ORDER])
    return plo, inb


PARTS = [(h, o) for h in ("asm", "hand") for o in (0, 1)]


def haplotype_inputs(D, which=None):
    from .checks.c07 import hand_vcf

    out = []
    if which in (None, "asm"):
        out.append(("asm", D.save_vcf(stddata.run(D.assemble_args()), "asm_in.vcf"), []))
    if which in (None, "hand"):
        out.append(("hand", hand_vcf(D), ["--prior-frequencies", "XF"]))
    return out


def argv_for(D, prog, order, hv, plo, extra):
    return ["mchap", prog, "--bam"] + [D.bams[s] for s in order] + ["--reference", D.ref, "--ploidy", plo, "--haplotypes", hv] + list(extra)


def locus_masks(locus):
    freqs = np.asarray(locus.frequencies, float)
    mask = np.zeros(len(freqs), bool)
    mask[0] = bool(locus.mask_reference_allele)
    mask |= freqs == 0
    return freqs, mask


def same_reads(a, b):
    a, b = np.asarray(a, float), np.asarray(b, float)
    return a.shape == b.shape and np.array_equal(a, b, equal_nan=True)


# ------------------------------------------------------------------------------------------------ call
def call_flow(r, payload, seed, part=None):
    import mchap.application.call as m_call
    import mchap.calling.classes as cc

    env.quiet()
    D = stddata.Data(env.scratch_dir("cliflow"))
    plo, inb = base_files(D)
    real = m_call.CallingMCMC
    fits, datas, burns, thresholds = [], [], [], []

    class Rec(real):
        def fit(self, reads, read_counts=None, initial=None):
            fits.append((dict(vars(self)), reads, read_counts, initial))
            return real.fit(self, reads, read_counts=read_counts, initial=initial)

    real_call = m_call.program.call_sample_genotypes
    real_burn = cc.GenotypeAllelesMultiTrace.burn
    real_inc = cc.GenotypeAllelesMultiTrace.replicate_incongruence

    def rec_call(self, data):
        datas.append((data, len(fits)))
        return real_call(self, data)

    def rec_burn(self, n):
        burns.append(n)
        return real_burn(self, n)

    def rec_inc(self, threshold=0.6):
        thresholds.append(threshold)
        return real_inc(self, threshold=threshold)

    settings = [dict(steps=90, burn=30, chains=3, seed=11, thr=0.7), dict(steps=64, burn=0, chains=1, seed=0, thr=0.5)]
    for hname, hv, hextra in haplotype_inputs(D, part and part[0]):
        for oi, order in enumerate(ORDERS):
            if part and part[1] != oi:
                continue
            st = settings[oi]
            extra = hextra + ["--inbreeding", inb, "--mcmc-steps", str(st["steps"]), "--mcmc-burn", str(st["burn"]), "--mcmc-chains", str(st["chains"]),
                              "--mcmc-seed", str(st["seed"]), "--mcmc-chain-incongruence-threshold", str(st["thr"])]
            fits.clear(), datas.clear(), burns.clear(), thresholds.clear()
            with patched((m_call, "CallingMCMC", Rec), (m_call.program, "call_sample_genotypes", rec_call), (cc.GenotypeAllelesMultiTrace, "burn", rec_burn),
                         (cc.GenotypeAllelesMultiTrace, "replicate_incongruence", rec_inc)):
                stddata.run(argv_for(D, "call", order, hv, plo, extra))
            env.quiet()
            tag = "call-flow|%s|order=%s" % (hname, "".join(order))
            n_fit = 0
            for di, (data, start) in enumerate(datas):
                end = datas[di + 1][1] if di + 1 < len(datas) else len(fits)
                mine = fits[start:end]
                r.evaluations += 1
                if list(data.samples) != list(order):
                    r.violation(tag + "|samples", "sample columns %r for BAM order %r" % (data.samples, order), payload)
                    continue
                freqs, mask = locus_masks(data.locus)
                invalid = bool(set(data.columndata.get("FILTER", [])) & {"NOA", "AF0"})
                if invalid:
                    if mine:
                        r.violation(tag + "|invalid-fitted", "a record flagged %r was still fitted" % data.columndata.get("FILTER"), payload)
                    continue
                if len(mine) != len(order):
                    r.violation(tag + "|fits", "%d sampler fits for %d samples at %s" % (len(mine), len(order), data.locus.name), payload)
                    continue
                r.nontrivial += 1
                haps = data.locus.encode_haplotypes()[~mask]
                for s, (attrs, reads, counts, initial) in zip(order, mine):
                    n_fit += 1
                    want = dict(ploidy=stddata.PLOIDY[s], inbreeding=FVAL[s], steps=st["steps"], chains=st["chains"], random_seed=st["seed"])
                    for k, v in want.items():
                        if attrs.get(k) != v:
                            r.violation(tag + "|attr|" + k, "sampler fitted to %s at %s has %s=%r, the command line / sample files say %r" % (s, data.locus.name, k, attrs.get(k), v), payload)
                    if not np.array_equal(np.asarray(attrs.get("haplotypes")), haps):
                        r.violation(tag + "|attr|haplotypes", "sampler for %s at %s was not given the unmasked, positive-prior haplotypes of the record" % (s, data.locus.name), payload)
                    fr = attrs.get("frequencies")
                    if fr is None or len(fr) != int((~mask).sum()) or not np.allclose(np.asarray(fr, float), freqs[~mask], rtol=1e-12, atol=0):
                        r.violation(tag + "|attr|frequencies", "sampler for %s at %s has prior frequencies %r, the record's retained alleles have %r" % (
                            s, data.locus.name, None if fr is None else np.asarray(fr).tolist(), freqs[~mask].tolist()), payload)
                    if not same_reads(reads, data.read_dists[s]) or not np.array_equal(np.asarray(counts), np.asarray(data.read_counts[s])):
                        r.violation(tag + "|reads", "sampler for %s at %s was fitted to another read matrix than that sample's" % (s, data.locus.name), payload)
                    r.outcome((tag, data.locus.name, s, want["ploidy"], want["inbreeding"]))
            if burns and set(burns) != {st["burn"]}:
                r.violation(tag + "|burn", "traces burnt by %r, --mcmc-burn is %d" % (sorted(set(burns)), st["burn"]), payload)
            if thresholds and set(thresholds) != {st["thr"]}:
                r.violation(tag + "|incongruence-threshold", "incongruence evaluated at %r, the option says %r" % (sorted(set(thresholds)), st["thr"]), payload)
            if n_fit == 0 or len(burns) != n_fit or len(thresholds) != n_fit:
                r.violation(tag + "|vacuous", "%d fits, %d burn calls, %d incongruence calls" % (n_fit, len(burns), len(thresholds)), payload)
    r.sample({"flow": "mchap call: CLI + per-sample ploidy / inbreeding files -> CallingMCMC objects", "orders": ORDERS, "file_line_order": FILE_ORDER}, cap=1)


# ------------------------------------------------------------------------------------------------ call-exact
def exact_flow(r, payload, seed, part=None):
    """call-exact end to end: GT / GPM / SPM / AFP / GP of every sample against the reference posterior under that sample's own ploidy and inbreeding"""
    import mchap.application.call_exact as m_ex

    env.quiet()
    D = stddata.Data(env.scratch_dir("cliflow"))
    plo, inb = base_files(D)
    datas = []
    real_call = m_ex.program.call_sample_genotypes

    def rec_call(self, data):
        out = real_call(self, data)
        datas.append(data)
        return out

    for hname, hv, hextra in haplotype_inputs(D, part and part[0]):
        for oi, order in enumerate(ORDERS):
            if part and part[1] != oi:
                continue
            for report in ([], ["GP"], ["AFP", "GL"]):
                extra = hextra + ["--inbreeding", inb] + (["--report"] + report if report else [])
                datas.clear()
                with patched((m_ex.program, "call_sample_genotypes", rec_call)):
                    out = stddata.run(argv_for(D, "call-exact", order, hv, plo, extra))
                env.quiet()
                hdr, samples, recs = vcfparse.parse(out)
                tag = "exact-flow|%s|order=%s|report=%s" % (hname, "".join(order), ",".join(report) or "-")
                if samples != list(order) or len(recs) != len(datas):
                    r.violation(tag + "|shape", "columns %r (BAM order %r), %d records for %d loci" % (samples, order, len(recs), len(datas)), payload)
                    continue
                full = bool(report)
                for rec, data in zip(recs, datas):
                    r.evaluations += 1
                    if set(rec["filter"].split(";")) & {"NOA", "AF0"}:
                        continue
                    freqs, mask = locus_masks(data.locus)
                    haps = [tuple(int(x) for x in h) for h in data.locus.encode_haplotypes()]
                    H = len(haps)
                    for si, s in enumerate(order):
                        P = stddata.PLOIDY[s]
                        if math.comb(H + P - 1, P) > 3500:  # the pure-Python reference is slow; the hexaploid at a 10-allele record is left to C03's function-level jobs
                            r.count("exact_flow_cases_skipped_large")
                            continue
                        reads = ref.reads_from_array(np.asarray(data.read_dists[s], float))
                        counts = [int(c) for c in data.read_counts[s]]
                        gens = ref.multisets(range(H), P)
                        w, llks = {}, {}
                        for g in gens:
                            pr = ref.dm_prior(g, [float(x) for x in freqs], FVAL[s])
                            l = ref.llk(reads, counts, [haps[a] for a in g])
                            llks[g] = l
                            w[g] = pr * math.exp(l) if pr > 0 and l > -math.inf else 0.0
                        z = sum(w.values())
                        if z <= 0:
                            continue
                        post = {g: v / z for g, v in w.items()}
                        r.nontrivial += 1
                        maxl = max([abs(v) for v in llks.values() if v > -math.inf] + [1.0])
                        tol = (4 * 8 * 2.0 ** -23 * maxl + 1e-5) if full else 1e-9
                        col = rec["samples"][si]
                        gt = tuple(int(a) for a in vcfparse.gt_alleles(col["GT"]) if a != ".")
                        pmax = max(post.values())
                        ctx = "%s at %s:%d (ploidy %d, F=%g)" % (s, rec["chrom"], rec["pos"], P, FVAL[s])
                        if len(gt) != P or gt not in post:
                            r.violation(tag + "|GT", "GT %r of %s is not a complete sorted genotype" % (col["GT"], ctx), payload)
                            continue
                        if post[gt] < pmax * (1 - tol) - 1e-12:
                            r.violation(tag + "|GT", "GT %r of %s has posterior %.6g under the sample's own parameters, the maximum is %.6g" % (col["GT"], ctx, post[gt], pmax), payload)
                            continue
                        sup = sum(v for g, v in post.items() if set(g) == set(gt))
                        for key, want in (("GPM", post[gt]), ("SPM", sup)):
                            if abs(float(col[key]) - want) > 0.0005 + tol:
                                r.violation(tag + "|" + key, "%s=%s of %s, reference %.6g" % (key, col[key], ctx, want), payload)
                        if "AFP" in col and col["AFP"] != ".":
                            afp = [sum(v * g.count(a) for g, v in post.items()) / P for a in range(H)]
                            got = [float(x) for x in col["AFP"].split(",")]
                            if len(got) != H or max(abs(a - b) for a, b in zip(got, afp)) > 0.0005 + tol:
                                r.violation(tag + "|AFP", "AFP=%s of %s, reference %r" % (col["AFP"], ctx, [round(x, 4) for x in afp]), payload)
                        if "GP" in col and col["GP"] != ".":
                            order_g = sorted(gens, key=lambda g: tuple(reversed(g)))
                            got = [float(x) for x in col["GP"].split(",")]
                            if len(got) != len(order_g) or max(abs(a - post[g]) for a, g in zip(got, order_g)) > 0.0005 + tol:
                                r.violation(tag + "|GP", "GP of %s differs from the reference posterior in VCF order" % ctx, payload)
                        r.outcome((tag, rec["pos"], s, gt))
    r.sample({"flow": "mchap call-exact CLI with per-sample ploidy / inbreeding files vs reference posterior", "orders": ORDERS}, cap=1)


# ------------------------------------------------------------------------------------------------ call-pedigree
PED = {  # sample: (parent_p, parent_q); G0 has no alignment file
    "S1": (".", "."), "S2": ("G0", "."), "S3": ("S1", "S2"), "G0": (".", "."),
}
PED_ORDER = ("S3", "G0", "S1", "S2")
PLO = dict(stddata.PLOIDY, G0=2)
TAU = {"S1": (2, 2), "S2": (1, 1), "S3": (2, 4), "G0": (1, 1)}
LAM = {"S1": (0.0, 0.01), "S2": (0.0, 0.0), "S3": (0.02, 0.0), "G0": (0.0, 0.0)}
ERR = {"S1": (0.011, 0.012), "S2": (0.021, 0.022), "S3": (0.031, 0.032), "G0": (0.041, 0.042)}


def pedigree_flow(r, payload, seed, part=None):
    import mchap.application.call_pedigree as m_ped

    env.quiet()
    D = stddata.Data(env.scratch_dir("cliflow"))
    plo = write_map(D, "ploidy_ped.txt", [(s, PLO[s]) for s in ("S2", "G0", "S3", "S1")])
    ped = write_map(D, "ped.txt", [(s,) + PED[s] for s in PED_ORDER])
    tau = write_map(D, "tau.txt", [(s,) + TAU[s] for s in ("G0", "S2", "S1", "S3")])
    lam = write_map(D, "lam.txt", [(s,) + LAM[s] for s in ("S1", "S3", "G0", "S2")])
    err = write_map(D, "err.txt", [(s,) + ERR[s] for s in ("S2", "S1", "S3", "G0")])
    real = m_ped.PedigreeCallingMCMC
    fits, datas, incs, burns = [], [], [], []

    class Rec(real):
        def fit(self, sample_reads, sample_read_counts, initial=None):
            fits.append((dict(vars(self)), sample_reads, sample_read_counts))
            tr = real.fit(self, sample_reads, sample_read_counts, initial=initial)
            cls = type(tr)
            if not getattr(cls, "_vmc_wrapped", False):
                real_inc, real_burn = cls.incongruence, cls.burn

                def inc(self_, **kw):
                    incs.append(kw)
                    return real_inc(self_, **kw)

                def burn(self_, n):
                    burns.append(n)
                    return real_burn(self_, n)

                cls.incongruence, cls.burn, cls._vmc_wrapped = inc, burn, (real_inc, real_burn)
            return tr

    real_call = m_ped.program.call_sample_genotypes

    def rec_call(self, data):
        datas.append((data, len(fits)))
        return real_call(self, data)

    import mchap.pedigree.classes as pc
    try:
        for hname, hv, hextra in haplotype_inputs(D, part and part[0]):
            for oi, order in enumerate(ORDERS):
                if part and part[1] != oi:
                    continue
                st = dict(steps=70 + 10 * oi, burn=20 + 10 * oi, chains=2 - oi, seed=4 * oi)
                extra = hextra + ["--sample-parents", ped, "--gamete-ploidy", tau, "--gamete-ibd", lam, "--gamete-error", err, "--mcmc-steps", str(st["steps"]),
                                  "--mcmc-burn", str(st["burn"]), "--mcmc-chains", str(st["chains"]), "--mcmc-seed", str(st["seed"])]
                fits.clear(), datas.clear(), incs.clear(), burns.clear()
                with patched((m_ped, "PedigreeCallingMCMC", Rec), (m_ped.program, "call_sample_genotypes", rec_call)):
                    stddata.run(argv_for(D, "call-pedigree", order, hv, plo, extra))
                env.quiet()
                tag = "pedigree-flow|%s|order=%s" % (hname, "".join(order))
                n_fit = 0
                for di, (data, start) in enumerate(datas):
                    end = datas[di + 1][1] if di + 1 < len(datas) else len(fits)
                    mine = fits[start:end]
                    r.evaluations += 1
                    names = list(data.samples)
                    if names[:3] != list(order) or sorted(names) != sorted(PED):
                        r.violation(tag + "|samples", "samples %r for BAM order %r and pedigree members %r" % (names, order, sorted(PED)), payload)
                        continue
                    invalid = bool(set(data.columndata.get("FILTER", [])) & {"NOA", "AF0"})
                    if invalid:
                        if mine:
                            r.violation(tag + "|invalid-fitted", "a record flagged %r was still fitted" % data.columndata.get("FILTER"), payload)
                        continue
                    if len(mine) != 1:
                        r.violation(tag + "|fits", "%d joint fits for one record" % len(mine), payload)
                        continue
                    n_fit += 1
                    r.nontrivial += 1
                    attrs, sreads, scounts = mine[0]
                    pos = {s: i for i, s in enumerate(names)}
                    freqs, mask = locus_masks(data.locus)
                    want = dict(
                        sample_ploidy=[PLO[s] for s in names],
                        sample_inbreeding=[0.0] * len(names),
                        sample_parents=[[-1 if p == "." else pos[p] for p in PED[s]] for s in names],
                        gamete_tau=[list(TAU[s]) for s in names],
                        gamete_lambda=[list(LAM[s]) for s in names],
                        gamete_error=[list(ERR[s]) for s in names],
                    )
                    for k, v in want.items():
                        got = np.asarray(attrs.get(k))
                        if got.shape != np.asarray(v).shape or not np.array_equal(got, np.asarray(v)):
                            r.violation(tag + "|attr|" + k, "joint sampler at %s has %s=%r; the files say %r for samples %r" % (data.locus.name, k, got.tolist(), v, names), payload)
                    for k, v in (("steps", st["steps"]), ("annealing", st["burn"]), ("chains", st["chains"]), ("random_seed", st["seed"])):
                        if attrs.get(k) != v:
                            r.violation(tag + "|attr|" + k, "joint sampler has %s=%r, the command line says %r" % (k, attrs.get(k), v), payload)
                    if not np.array_equal(np.asarray(attrs.get("haplotypes")), data.locus.encode_haplotypes()[~mask]):
                        r.violation(tag + "|attr|haplotypes", "joint sampler at %s was not given the unmasked, positive-prior haplotypes" % data.locus.name, payload)
                    fr = attrs.get("frequencies")
                    if fr is None or len(fr) != int((~mask).sum()) or not np.allclose(np.asarray(fr, float), freqs[~mask], rtol=1e-12, atol=0):
                        r.violation(tag + "|attr|frequencies", "joint sampler at %s has prior frequencies %r, the record's retained alleles have %r" % (
                            data.locus.name, None if fr is None else np.asarray(fr).tolist(), freqs[~mask].tolist()), payload)
                    # reads: row i = sample i's own reads, padded with zero-count rows
                    for i, s in enumerate(names):
                        rd, rc = np.asarray(data.read_dists[s], float), np.asarray(data.read_counts[s])
                        n = len(rc)
                        ok = sreads.shape[0] == len(names) and same_reads(sreads[i][:n], rd) and np.array_equal(scounts[i][:n], rc) and not scounts[i][n:].any()
                        if not ok:
                            r.violation(tag + "|reads", "row %d of the joint read tensor is not sample %s's read matrix followed by zero-count padding (%s)" % (i, s, data.locus.name), payload)
                    r.outcome((tag, data.locus.name, tuple(names)))
                for kw in incs:
                    for k in ("sample_ploidy", "sample_parents", "gamete_tau", "gamete_lambda"):
                        if not np.array_equal(np.asarray(kw.get(k)), np.asarray(want[k])):
                            r.violation(tag + "|pederr-args|" + k, "PEDERR evaluated with %s=%r, the files say %r" % (k, np.asarray(kw.get(k)).tolist(), want[k]), payload)
                if burns and set(burns) != {st["burn"]}:
                    r.violation(tag + "|burn", "traces burnt by %r, --mcmc-burn is %d" % (sorted(set(burns)), st["burn"]), payload)
                if n_fit == 0 or len(incs) != n_fit or len(burns) != n_fit:
                    r.violation(tag + "|vacuous", "%d fits, %d PEDERR evaluations, %d burn calls" % (n_fit, len(incs), len(burns)), payload)
    finally:
        cls = pc.PedigreeAllelesMultiTrace
        if getattr(cls, "_vmc_wrapped", False):
            cls.incongruence, cls.burn = cls._vmc_wrapped
            cls._vmc_wrapped = False
    r.sample({"flow": "mchap call-pedigree: CLI + pedigree / gamete files -> PedigreeCallingMCMC arrays", "pedigree": PED, "tau": TAU, "lambda": LAM, "error": ERR}, cap=1)


# ------------------------------------------------------------------------------------------------ G-length fields
def vcf_index(g):
    """position of the sorted allele tuple g in a G-length field (VCF specification): sum_k C(a_k + k, k + 1)"""
    return sum(math.comb(a + k, k + 1) for k, a in enumerate(sorted(g)))


def gfield_flow(r, payload, prog, hname):
    """FORMAT/GP and GL as printed by a caller: N = C(alleles + ploidy - 1, ploidy) values over *all* alleles of the record (masked ones included),
    GP at the VCF index of the called genotype is GPM, GL at every index is that genotype's read likelihood"""
    mods = stddata.modules()
    m = mods[prog]
    env.quiet()
    D = stddata.Data(env.scratch_dir("gfield"))
    datas = []
    real_call = m.program.call_sample_genotypes

    def rec_call(self, data):
        out = real_call(self, data)
        datas.append(data)
        return out

    if prog == "assemble":
        with patched((m.program, "call_sample_genotypes", rec_call)):
            out = stddata.run(D.assemble_args(report=["GP", "GL"], extra=["--haplotype-posterior-threshold", hname]))
    else:
        (hn, hv, hextra), = haplotype_inputs(D, hname)
        extra = hextra + (D.pedigree_files() if prog == "call-pedigree" else []) + ["--report", "GP", "GL"]
        with patched((m.program, "call_sample_genotypes", rec_call)):
            out = stddata.run(D.call_args(prog, hv, extra=extra))
    env.quiet()
    hdr, samples, recs = vcfparse.parse(out)
    tag = "gfield|%s|%s" % (prog, hname)
    if len(recs) != len(datas) or not recs:
        r.violation(tag + "|shape", "%d records for %d loci" % (len(recs), len(datas)), payload)
        return
    for rec, data in zip(recs, datas):
        if set(rec["filter"].split(";")) & {"NOA", "AF0"}:
            continue
        if prog == "assemble":
            # listed alleles -> per-SNV allele indices, read off the REF / ALT strings at the record's SNVPOS
            snvpos = [] if rec["info"].get("SNVPOS") in (None, ["."]) else [int(x) - 1 for x in rec["info"]["SNVPOS"]]
            try:
                haps = [tuple(list(data.locus.alleles[j]).index(seq[k]) for j, k in enumerate(snvpos)) for seq in [rec["ref"]] + rec["alt"]]
            except ValueError:
                r.violation(tag + "|alleles", "a listed allele of %s:%d uses a base that is not an allele of the SNV" % (rec["chrom"], rec["pos"]), payload)
                continue
        else:
            haps = [tuple(int(x) for x in h) for h in data.locus.encode_haplotypes()]
        H = len(haps)
        if H != len(rec["alt"]) + 1:
            r.violation(tag + "|alleles", "%d encoded haplotypes for %d listed alleles" % (H, len(rec["alt"]) + 1), payload)
            continue
        for si, s in enumerate(samples):
            P = stddata.PLOIDY[s]
            col = rec["samples"][si]
            N = math.comb(H + P - 1, P)
            r.evaluations += 1
            ctx = "%s at %s:%d (%d alleles, ploidy %d)" % (s, rec["chrom"], rec["pos"], H, P)
            gp = col.get("GP")
            gl = col.get("GL")
            if gp in (None, ".") or gl in (None, "."):
                r.violation(tag + "|missing", "GP / GL requested but %r / %r for %s" % (gp, gl, ctx), payload)
                continue
            gp = [float(x) for x in gp.split(",")]
            glv = [float("-inf") if x in (".", "-inf") else float(x) for x in gl.split(",")]
            if len(gp) != N or len(glv) != N:
                r.violation(tag + "|length", "GP has %d and GL %d values, N = %d for %s" % (len(gp), len(glv), N, ctx), payload)
                continue
            r.nontrivial += 1
            gt = [a for a in vcfparse.gt_alleles(col["GT"])]
            if "." not in gt:
                idx = vcf_index([int(a) for a in gt])
                if abs(gp[idx] - float(col["GPM"])) > 0.0011:
                    r.violation(tag + "|GP-at-GT", "GP[%d] = %g at the VCF index of GT %s but GPM = %s for %s" % (idx, gp[idx], col["GT"], col["GPM"], ctx), payload)
            if sum(gp) > 1.0 + 0.0005 * N:
                r.violation(tag + "|GP-sum", "GP sums to %g for %s" % (sum(gp), ctx), payload)
            reads = ref.reads_from_array(np.asarray(data.read_dists[s], float))
            counts = [int(c) for c in data.read_counts[s]]
            bad = 0
            for g in ref.multisets(range(H), P):
                want = ref.llk(reads, counts, [haps[a] for a in g]) / math.log(10)
                got = glv[vcf_index(g)]
                if want == -math.inf:
                    ok = got < -30
                else:
                    ok = abs(got - want) <= 0.0006 + 1e-5 * abs(want)
                if not ok and bad == 0:
                    bad += 1
                    r.violation(tag + "|GL-order", "GL[%d] = %g but genotype %r (that VCF index) has log10 likelihood %.4f for %s" % (vcf_index(g), got, g, want, ctx), payload)
            r.outcome((tag, rec["pos"], s, tuple(gt)))
    r.sample({"flow": "G-length fields of %s on %s input" % (prog, hname)}, cap=1)
