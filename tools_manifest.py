#!/usr/bin/env python3
"""Regenerates MANIFEST.json from the table below (kept in one place so it is always valid)."""
import json, pathlib, sys
V = pathlib.Path(__file__).resolve().parent
BASE = "cd /repo && /venv/bin/python -m pytest -ra -q -p no:cacheprovider --timeout=900 --continue-on-collection-errors"

CHECKS = {}   # filled in by vmc/manifest_table.py
sys.path.insert(0, str(V))
from vmc.manifest_table import CHECKS, NOT_APPLICABLE, ENGINES, NOTES, SOURCE_COMMITS

man = {
    "version": 1,
    "setup_cmd": "./check setup",
    "hooks": {
        "guard": "MCHAP_VERIF",
        "enable": "no source hooks: every seam is a module-level name patched by the harness at run time; the env var MCHAP_VERIF=1 is set by ./check but read by nothing in /repo",
        "baseline_off_cmd": BASE,
        "source_commits": SOURCE_COMMITS,
        "add_only": True,
    },
    "engines": ENGINES,
    "checks": [],
    "notes": NOTES,
    "not_applicable": NOT_APPLICABLE,
}
for pid in sorted(CHECKS):
    c = CHECKS[pid]
    man["checks"].append({
        "property_id": pid,
        "quick_cmd": "./check %s --tier quick" % pid,
        "thorough_cmd": "./check %s --tier thorough" % pid,
        "evidence_file": "/verif/evidence/%s.json" % pid,
        "replay_cmd_template": "./check %s --replay {path}" % pid,
        "engine": c["engine"],
        "level_claimed": {"category": c["category"], "text": c["text"], "design_ref": c.get("design_ref", "DESIGN.md section 3, " + pid)},
        "level_note": c["note"],
        "technique": c["technique"],
    })
(V / "MANIFEST.json").write_text(json.dumps(man, indent=1) + "\n")
import jsonschema
jsonschema.validate(man, json.load(open("/root/.vp/MANIFEST.schema.json")))
ids = {c["property_id"] for c in man["checks"]} | {n["property_id"] for n in NOT_APPLICABLE}
assert ids == {"C%02d" % i for i in range(1, 21)}, sorted(ids)
print("MANIFEST.json ok:", len(man["checks"]), "checks,", len(NOT_APPLICABLE), "not applicable")
