import numpy as np, itertools, warnings, sys
from collections import Counter
warnings.simplefilter("ignore")
from mchap.calling.classes import GenotypeAllelesMultiTrace
from mchap.assemble.classes import GenotypeMultiTrace, PosteriorGenotypeDistribution
from mchap.assemble import call_posterior_haplotypes
from mchap.application.assemble import _genotype_as_alleles
from mchap.jitutils import genotype_alleles_as_index
# ---- C14 calling traces
viol=0; n=0
A=[0,1,2]; P=2
genos=list(itertools.product(A,repeat=P))
for chains,steps in [(1,3),(2,2)]:
    for tr in itertools.product(genos,repeat=chains*steps):
        arr=np.array(tr).reshape(chains,steps,P)
        for burn in range(steps):
            t=GenotypeAllelesMultiTrace(np.sort(arr,axis=-1),np.zeros((chains,steps)),3).burn(burn)
            post=t.posterior(); n+=1
            ref=Counter(tuple(sorted(g)) for c in range(chains) for g in arr[c,burn:].tolist())
            tot=sum(ref.values())
            got={tuple(g):p for g,p in zip(post.genotypes.tolist(),post.probabilities)}
            if set(got)!=set(ref) or any(abs(got[g]-ref[g]/tot)>1e-12 for g in ref): viol+=1; print("POST",arr.tolist(),burn)
            # mode with support
            sup=Counter()
            for g,c in ref.items(): sup[frozenset(g)]+=c
            best=max(sup.values())
            m=post.mode(genotype_support=True)
            if abs(m[2]-best/tot)>1e-12: viol+=1; print("SUP",arr.tolist(),burn,m)
            cands=[g for g,c in ref.items() if sup[frozenset(g)]==best]
            if abs(m[1]-max(ref[g] for g in ref if frozenset(g)==frozenset(m[0].tolist()))/tot)>1e-12: viol+=1; print("MODE",arr.tolist(),burn,m)
            f,cnt,occ=t.posterior_frequencies()
            rc=[sum(c*g.count(a) for g,c in ref.items())/tot for a in A]; ro=[sum(c for g,c in ref.items() if a in g)/tot for a in A]
            if np.abs(cnt-rc).max()>1e-12 or np.abs(occ-ro).max()>1e-12 or np.abs(f-np.array(rc)/P).max()>1e-12: viol+=1; print("FREQ",arr.tolist(),burn)
            arr_gp=post.as_array(3)
            for g,c in ref.items():
                if abs(arr_gp[genotype_alleles_as_index(np.array(g))]-c/tot)>1e-12: viol+=1; print("GP",arr.tolist())
            if abs(arr_gp.sum()-1)>1e-12: viol+=1
print("C14 calling cases",n,"viol",viol)
# ---- C13
H=[(0,0),(0,1),(1,0),(1,1)]
G=list(itertools.combinations_with_replacement(range(4),2))
viol=0;n=0
def dists(maxsup=2,den=4):
    for k in range(1,maxsup+1):
        for sup in itertools.combinations(range(len(G)),k):
            for comp in itertools.product(range(1,den+1),repeat=k):
                if sum(comp)==den: yield [(G[i],c/den) for i,c in zip(sup,comp)]
D=list(dists())
print("dists",len(D))
def mk(d):
    gen=np.array([[H[a] for a in g] for g,_ in d],np.int8); pr=np.array([p for _,p in d])
    o=np.flip(np.argsort(pr)); return PosteriorGenotypeDistribution(gen[o],pr[o])
for thr in (0.0,0.25,0.5,1.0):
  for d1 in D:
    for d2 in D[::7]:
        posts=[mk(d1),mk(d2)]; n+=1
        haps,refc=call_posterior_haplotypes(posts,threshold=thr)
        occ=[{h:sum(p for g,p in d if h in g) for h in range(4)} for d in (d1,d2)]
        dos=[{h:sum(p*g.count(h) for g,p in d) for h in range(4)} for d in (d1,d2)]
        qual={h for h in range(4) if any(o[h]>=thr for o in occ)}
        got=[H.index(tuple(x)) for x in haps.tolist()]
        if got[0]!=0: viol+=1; print("REF not first")
        if set(got[1:])!=qual-{0}: viol+=1; print("SET",thr,d1,d2,got,qual)
        if refc!=(0 in qual): viol+=1; print("REFC",thr,d1,d2,refc)
        w={h:sum(dd[h] for dd,o in zip(dos,occ) if o[h]>=thr) for h in got[1:]}
        ws=[w[h] for h in got[1:]]
        if any(ws[i]<ws[i+1]-1e-12 for i in range(len(ws)-1)): viol+=1; print("ORDER",thr,d1,d2,got,ws)
print("C13 cases",n,"viol",viol)
