# C15: substeps int8 with >127 SNVs
import numpy as np
from mchap.assemble import mutation
import mchap.assemble.mutation as m
rec=[]
def fake_base_step(genotype, reads, llk, h, j, n_alleles, log_unique_haplotypes, inbreeding=0, temp=1, read_counts=None, cache=None):
    rec.append((int(h),int(j),int(n_alleles)))
    return llk, cache
orig = m.base_step
m.base_step = fake_base_step
import warnings
warnings.simplefilter("ignore")
for n_base in (5, 127, 128, 130, 200):
    rec.clear()
    ploidy=2
    genotype=np.zeros((ploidy,n_base),np.int8)
    reads=np.full((1,n_base,2),0.5)
    n_alleles=np.arange(n_base)%2+2
    np.random.seed(0)
    m.compound_step.py_func(genotype, reads, 0.0, n_alleles, 1.0)
    exp = sorted((h,j,int(n_alleles[j])) for h in range(ploidy) for j in range(n_base))
    print(n_base, sorted(rec)==exp, len(rec), len(set(rec)), min(j for _,j,_ in rec))
m.base_step = orig
# jitted behaviour: run real compound_step with 200 SNVs and see which sites ever change
n_base=200; ploidy=2
genotype=np.zeros((ploidy,n_base),np.int8)
reads=np.full((1,n_base,2),0.5)
n_alleles=np.full(n_base,2)
changed=np.zeros(n_base,bool)
np.random.seed(1)
from mchap.jitutils import seed_numba
seed_numba(1)
for it in range(200):
    g0=genotype.copy()
    llk,_=mutation.compound_step(genotype, reads, 0.0, n_alleles, np.log(2.0)*n_base)
    changed |= (g0!=genotype).any(axis=0)
print("sites never changed (jit):", np.where(~changed)[0][:10], (~changed).sum())
