import numpy as np, warnings, types, itertools
warnings.simplefilter("ignore")
import mchap.assemble.mcmc as mc
import mchap.assemble.structural as st
from mchap.assemble.likelihood import log_likelihood
class RNG:
    def __init__(s,script): s.script=list(script); s.log=[]
    def rand(s): v=s.script.pop(0) if s.script else 0.0; s.log.append(("rand",v)); return v
    def choice(s,opts): i=s.script.pop(0) if s.script else 0; s.log.append(("choice",len(opts),i)); return opts[i]
    def permutation(s,x): s.log.append(("perm",len(x))); return x
    def shuffle(s,x): s.log.append(("shuffle",len(x)))
class NP:
    def __init__(s,rng): s.random=rng
    def __getattr__(s,k): return getattr(np,k)
# (2) random_breaks all outcomes for (breaks=2,n=5)
outs=set()
def dfs(prefix):
    r=RNG(prefix); st.np=NP(r)
    iv=st.random_breaks.py_func(2,5)
    st.np=np
    picks=[e for e in r.log if e[0]=="choice"]
    outs.add(tuple(map(tuple,iv.tolist())))
    for i in range(len(prefix),len(picks)):
        for alt in range(1,picks[i][1]):
            dfs([p[2] for p in picks[:i]]+[alt])
dfs([])
print(len(outs), sorted(outs)[:3])
# (1) orchestration
calls=[]
def mut_cs(**kw): calls.append(("mut",kw["temp"],kw["llk"],kw["genotype"].copy())); return kw["llk"]+1, kw["cache"]
def str_cs(**kw): calls.append(("str",kw["step_type"],kw["temp"],kw["llk"],kw["intervals"].tolist())); return kw["llk"]+10, kw["cache"]
def swap(**kw): calls.append(("swap",kw["temp_i"],kw["temp_j"],kw["llk_i"],kw["llk_j"])); return kw["llk_j"],kw["llk_i"]
r=RNG([0.9,0.1,0.9]*10)
mc.np=NP(r); mc.mutation=types.SimpleNamespace(compound_step=mut_cs); mc.structural=types.SimpleNamespace(compound_step=str_cs,random_breaks=st.random_breaks); mc.chain_swap_step=swap
mc.random_choice=lambda p: 0
g=np.array([[0,0],[0,1]],np.int8); reads=np.array([[[0.9,0.1],[0.2,0.8]]])
gt,lt=mc._denovo_assembler.py_func(genotype=g,inbreeding=0.0,reads=reads,read_counts=None,n_alleles=np.array([2,2]),steps=2,break_dist=np.array([1.0]),recombination_step_probability=0.5,partial_dosage_step_probability=0.5,dosage_step_probability=1.0,temperatures=np.array([0.5,1.0]),return_heated_trace=False,llk_cache_threshold=-1)
for c in calls: print(c[:4])
print(lt)
