import numpy as np, itertools, warnings, pysam, io, contextlib, sys
warnings.simplefilter("ignore")
sys.path.insert(0,"/tmp/exp")
from synth_proto import write_ref, REF
import mchap.application.find_snvs as fs
ref=write_ref("/tmp/exp/ds3")
contig="chr1"; start=12; stop=13   # ref base at 12 = 'T'
refbase=REF[contig][12]; NUC="ACGT"
viol=0;n=0
depth_vals=[0,1,3,10]
# 2 samples, 1 position: depths per nucleotide; restrict to 3 nucleotides nonzero options to limit
opts=list(itertools.product(depth_vals,repeat=4))
import random
cases=[]
for d1 in opts:
    if sum(d1)==0: continue
    for d2 in [(0,0,0,0),(3,0,0,1),(0,10,1,0),(1,1,1,1)]:
        cases.append((d1,d2))
thr=[dict(maf=maf,mad=mad,ind_maf=im,ind_mad=ia,min_ind=mi) for maf in (0.0,0.2) for mad in (0,5) for im in (0.0,0.1,0.5) for ia in (0,3) for mi in (1,2)]
for d1,d2 in cases:
    dep=np.array([[list(d1),list(d2)]],np.int64)  # (pos, sample, 4)
    fs.bam_region_depths=lambda *a,**k: dep.copy()
    for t in thr:
        n+=1
        buf=io.StringIO()
        try:
            with contextlib.redirect_stdout(buf):
                fs.write_vcf_block(contig,start,stop,ref,["x","y"],mapping_quality=20,skip_duplicates=True,skip_qcfail=True,skip_supplementary=True,**t)
            out=buf.getvalue().strip()
        except Exception as e:
            out=f"EXC {type(e).__name__}: {e}"
        # oracle
        dd=np.array([d1,d2],float); tot=dd.sum(axis=1,keepdims=True)
        with np.errstate(all="ignore"): fr=dd/tot   # nan for empty sample
        keep=[]
        for a in range(4):
            cnt=sum(1 for s in range(2) if (not np.isnan(fr[s,a])) and fr[s,a]>=t["ind_maf"] and dd[s,a]>=t["ind_mad"])
            k=cnt>=t["min_ind"]
            if t["maf"]>0:
                m=np.mean(fr[:,a])  # nan if any sample empty -> comparison False
                k=k and (not np.isnan(m)) and m>=t["maf"]
            if t["mad"]>0: k=k and dd[:,a].sum()>=t["mad"]
            keep.append(k)
        if sum(keep)<2: exp=None
        else:
            ri=NUC.index(refbase)
            frz=np.where(np.array(keep)[None,:],fr,0.0)
            mf=np.nanmean(frz,axis=0)
            alts=[a for a in range(4) if keep[a] and a!=ri]
            exp=dict(ref=refbase,masked=not keep[ri],alts=alts,mf=mf)
        if exp is None:
            if out!="": viol+=1; print("EXPECT NONE",d1,d2,t,out) if viol<10 else None
            continue
        if out.startswith("EXC") or out=="":
            viol+=1; print("EXPECT REC",d1,d2,t,out[:100]) if viol<10 else None; continue
        f=out.split("\t")
        got_alts=f[4].split(",")
        ok = f[3]==refbase and set(got_alts)=={NUC[a] for a in exp["alts"]} and (("REFMASKED" in f[7])==exp["masked"])
        # ordering by decreasing mean freq
        mfs=[exp["mf"][NUC.index(x)] for x in got_alts]
        ok = ok and all(mfs[i]>=mfs[i+1]-1e-12 for i in range(len(mfs)-1))
        if not ok: viol+=1; print("REC MISMATCH",d1,d2,t,out,exp) if viol<10 else None
print("cases",n,"viol",viol)
