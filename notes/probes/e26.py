import numpy as np, itertools, warnings, pysam, io, contextlib, sys, os
warnings.simplefilter("ignore")
from mchap.application.atomize import atomize_vcf
HDR="""##fileformat=VCFv4.3
##contig=<ID=chr1,length=100>
##INFO=<ID=SNVPOS,Number=.,Type=Integer,Description="x">
##INFO=<ID=END,Number=1,Type=Integer,Description="x">
##FORMAT=<ID=GT,Number=1,Type=String,Description="x">
##FORMAT=<ID=SQ,Number=1,Type=Integer,Description="x">
##FORMAT=<ID=ACP,Number=R,Type=Float,Description="x">
##FORMAT=<ID=SNVDP,Number=.,Type=Integer,Description="x">
#CHROM	POS	ID	REF	ALT	QUAL	FILTER	INFO	FORMAT	S1	S2
"""
os.makedirs("/tmp/exp/ds5",exist_ok=True)
ref="AAA"; n=0; viol=0; crashes=0
alt_pool=["ACA","AAC","CCA","CAC"]
def fmtf(x):
    s=("%.3f"%round(x,3)).rstrip("0").rstrip("."); return s if s not in("-0",) else "0"
for k in (0,1,2):
  for alts in itertools.permutations(alt_pool,k):
    seqs=(ref,)+alts
    poly=[i for i in range(3) if len({s[i] for s in seqs})>1]
    supersets=[sp for r in range(len(poly),4) for sp in itertools.combinations(range(3),r) if set(poly)<=set(sp)]
    for snv in supersets:
        nal=len(seqs)
        gts=list(itertools.combinations_with_replacement(list(range(nal))+[None],2))
        for g1 in gts:
          for g2 in gts[::3]:
            for with_acp in (True,False):
                def samp(g):
                    gs=sorted([a for a in g if a is not None])+[None]*sum(a is None for a in g)
                    gt="/".join("." if a is None else str(a) for a in gs)
                    acp=[sum(1.0 for a in g if a==i) for i in range(nal)]
                    # spread missing mass evenly
                    miss=sum(a is None for a in g)
                    acp=[x+miss/nal for x in acp]
                    f=[gt,"30"]+( [",".join(fmtf(x) for x in acp)] if with_acp else [])+[",".join("5" for _ in snv) if snv else "."]
                    return ":".join(f), gs, acp
                s1,ga,acpa=samp(g1); s2,gb,acpb=samp(g2)
                fmt="GT:SQ"+(":ACP" if with_acp else "")+":SNVDP"
                info="END=13;SNVPOS="+(",".join(str(i+1) for i in snv) if snv else ".")
                line=f"chr1\t11\tr\t{ref}\t{','.join(alts) if alts else '.'}\t.\tPASS\t{info}\t{fmt}\t{s1}\t{s2}"
                p="/tmp/exp/ds5/t.vcf"; open(p,"w").write(HDR+line+"\n"); n+=1
                buf=io.StringIO()
                try:
                    with contextlib.redirect_stdout(buf): atomize_vcf(p)
                except Exception as e:
                    crashes+=1
                    if crashes<4: print("CRASH",line,type(e).__name__,e)
                    continue
                out=[l.split("\t") for l in buf.getvalue().splitlines() if not l.startswith("#")]
                # oracle
                exp_sites=list(snv)
                got={int(r[1]):r for r in out}
                for i in exp_sites:
                    pos=11+i
                    chars=[]
                    for s in seqs:
                        if s[i] not in chars: chars.append(s[i])
                    r=got.get(pos)
                    if r is None:
                        if len(chars)>1: viol+=1; print("MISSING SITE",line,pos)
                        continue
                    if r[3]!=chars[0] or (r[4]!=(",".join(chars[1:]) if len(chars)>1 else ".")): viol+=1; print("ALLELES",line,r[:5]) if viol<10 else None
                    for (gs,acp),col in ((( ga,acpa),r[9]),((gb,acpb),r[10])):
                        f=col.split(":")
                        egt="|".join("." if a is None else str(chars.index(seqs[a][i])) for a in gs)
                        if f[0]!=egt: viol+=1; print("GT",line,pos,f[0],egt) if viol<10 else None
                    if "PS=11" not in r[7]: viol+=1
                    # AC
                    ac=[0]*len(chars)
                    for gs in (ga,gb):
                        for a in gs:
                            if a is not None: ac[chars.index(seqs[a][i])]+=1
                    eac="AC="+(",".join(str(x) for x in ac[1:]) if len(chars)>1 else ".")
                    if eac not in r[7].split(";"): viol+=1; print("AC",line,pos,r[7],eac) if viol<10 else None
print("cases",n,"crashes",crashes,"viol",viol)
