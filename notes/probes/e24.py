import sys, warnings, pysam, os
warnings.simplefilter("ignore")
sys.path.insert(0,"/tmp/exp")
from synth_proto import *
from mchap.application import assemble, call, call_exact
d="/tmp/exp/ds4"; os.makedirs(d,exist_ok=True)
ref=write_ref(d)
snvs=[("chr1",12,"T",("C",)),("chr1",17,"A",("G","T")),("chr1",22,"T",("A",))]
vcf=write_snvs(d,snvs); bed=write_bed(d,[("chr1",8,30,"L1")])
def rds(prefix,rg,haps,depth,pos0):
    return [dict(name=f"{prefix}{i}",contig="chr1",pos=pos0,cigar=[("M",18)],seq=hap_read("chr1",pos0,18,snvs,haps[i%len(haps)]),rg=rg) for i in range(depth)]
A=rds("a","rgA",[(0,0,0),(1,1,0)],10,8); B=rds("b","rgB",[(1,2,1),(0,0,0)],8,9); C=rds("c","rgC",[(1,1,0)],6,10)
bA=write_bam(f"{d}/A.bam",[("rgA","A")],A); bB=write_bam(f"{d}/B.bam",[("rgB","B")],B); bC=write_bam(f"{d}/C.bam",[("rgC","C")],C)
# physically merged: pool P1={A,B}, P2={B,C}
def merged(name,members):
    reads=[]
    for m in members: reads+= [dict(r,rg="rgM") for r in m]
    return write_bam(f"{d}/{name}.bam",[("rgM",name)],reads)
m1=merged("P1",[A,B]); m2=merged("P2",[B,C])
open(f"{d}/pools.txt","w").write("A\tP1\nB\tP1\nB\tP2\nC\tP2\n")
def cols(o):
    rows=[l.split("\t") for l in o.splitlines() if not l.startswith("##")]
    return {s:[r[9+i] for r in rows[1:]] for i,s in enumerate(rows[0][9:])}, [r[:5] for r in rows[1:]]
common=["--reference",ref,"--ploidy","4","--report","AFP","GP"]
o_pool=run_prog(assemble,["mchap","assemble","--bam",bA,bB,bC,"--sample-pool",f"{d}/pools.txt","--targets",bed,"--variants",vcf,"--mcmc-steps","400","--mcmc-burn","100",*common])
o_mrg=run_prog(assemble,["mchap","assemble","--bam",m1,m2,"--targets",bed,"--variants",vcf,"--mcmc-steps","400","--mcmc-burn","100",*common])
cp,rp=cols(o_pool); cm,rm=cols(o_mrg)
print("assemble pool==merged", cp==cm, rp==rm); 
if cp!=cm: print(cp,cm)
open(f"{d}/asm.vcf","w").write(o_pool); pysam.tabix_index(f"{d}/asm.vcf",preset="vcf",force=True)
for mod,name,extra in [(call,"call",["--mcmc-steps","400","--mcmc-burn","100"]),(call_exact,"call-exact",[])]:
    o1=run_prog(mod,["mchap",name,"--bam",bA,bB,bC,"--sample-pool",f"{d}/pools.txt","--haplotypes",f"{d}/asm.vcf.gz",*extra,*common])
    o2=run_prog(mod,["mchap",name,"--bam",m1,m2,"--haplotypes",f"{d}/asm.vcf.gz",*extra,*common])
    c1,_=cols(o1); c2,_=cols(o2)
    print(name,"pool==merged",c1==c2)
    if c1!=c2: print(c1,c2)
# order of bam args permutes columns
o_perm=run_prog(call_exact,["mchap","call-exact","--bam",bC,bA,bB,"--haplotypes",f"{d}/asm.vcf.gz",*common])
o_ord=run_prog(call_exact,["mchap","call-exact","--bam",bA,bB,bC,"--haplotypes",f"{d}/asm.vcf.gz",*common])
print("perm", cols(o_perm)[0]==cols(o_ord)[0], list(cols(o_perm)[0]))
