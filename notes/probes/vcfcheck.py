# prototype independent VCF text checker
import math
def parse(text):
    hdr={"INFO":{},"FORMAT":{},"FILTER":set(),"contig":{}}; recs=[]; samples=[]
    for l in text.splitlines():
        if l.startswith("##INFO=<") or l.startswith("##FORMAT=<"):
            kind=l[2:l.index("=")]; body=l[l.index("<")+1:-1]
            d={}
            for kv in body.split(",",3):
                k,v=kv.split("=",1); d[k]=v
            hdr[kind][d["ID"]]=d
        elif l.startswith("##FILTER=<"): hdr["FILTER"].add(l.split("ID=")[1].split(",")[0])
        elif l.startswith("#CHROM"): samples=l.split("\t")[9:]
        elif l.startswith("#") or not l: pass
        else:
            f=l.split("\t")
            recs.append(dict(chrom=f[0],pos=int(f[1]),id=f[2],ref=f[3],alt=[] if f[4]=="." else f[4].split(","),filter=f[6],info=f[7],fmt=f[8].split(":") if len(f)>8 else [],samples=[s.split(":") for s in f[9:]],line=l))
    return hdr,samples,recs
def ncomb(n,k): return math.comb(n+k-1,k)
def check(text):
    hdr,samples,recs=parse(text); errs=[]
    for r in recs:
        nalt=len(r["alt"]); info={}
        for kv in r["info"].split(";"):
            if "=" in kv: k,v=kv.split("=",1); info[k]=v.split(",")
            else: info[kv]=True
        for k,v in info.items():
            if k not in hdr["INFO"]: errs.append((r["id"],"INFO undeclared",k)); continue
            num=hdr["INFO"][k]["Number"]
            if v is True:
                if num!="0": errs.append((r["id"],"flag",k))
                continue
            if v==["."]: continue
            exp={"A":nalt,"R":nalt+1}[num] if num in "AR" else (None if num=="." else int(num))
            if exp is not None and len(v)!=exp: errs.append((r["id"],"INFO card",k,len(v),exp))
        for f in r["filter"].split(";"):
            if f!="." and f not in hdr["FILTER"]: errs.append((r["id"],"FILTER undeclared",f))
        for s,vals in zip(samples,r["samples"]):
            if len(vals)!=len(r["fmt"]): errs.append((r["id"],s,"fmt len")); continue
            d=dict(zip(r["fmt"],vals))
            gt=d["GT"].replace("|","/").split("/"); ploidy=len(gt)
            al=[a for a in gt if a!="."]
            if any(int(a)>nalt for a in al): errs.append((r["id"],s,"GT allele out of range",d["GT"]))
            ints=[int(a) for a in al]
            if ints!=sorted(ints) or "." in gt[:len(al)]: errs.append((r["id"],s,"GT order",d["GT"]))
            for k,v in d.items():
                if k not in hdr["FORMAT"]: errs.append((r["id"],s,"FORMAT undeclared",k)); continue
                if k=="GT" or v==".": continue
                num=hdr["FORMAT"][k]["Number"]; vv=v.split(",")
                exp={"A":nalt,"R":nalt+1,"G":ncomb(nalt+1,ploidy)}[num] if num in "ARG" else (None if num=="." else int(num))
                if exp is not None and len(vv)!=exp: errs.append((r["id"],s,"FORMAT card",k,len(vv),exp))
        for a in r["alt"]:
            if len(a)!=len(r["ref"]): errs.append((r["id"],"ALT len"))
    return errs
