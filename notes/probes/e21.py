import numpy as np, itertools, collections, warnings, math, time
warnings.simplefilter("ignore")
from mchap.assemble import arraymap
def key_of(m):
    tree,values,L,en,ev,mx=m
    return (tree.tobytes(),tree.shape,values.tobytes(),L,en,ev,mx)
def copy(m):
    tree,values,L,en,ev,mx=m
    return (tree.copy(),values.copy(),L,en,ev,mx)
def explore(L,b,init,mx,depth,vals=(-1.5,-2.5)):
    keys=[np.array(k,np.int8) for k in itertools.product(range(b),repeat=L)]
    m0=arraymap.new(L,b,initial_size=init,max_size=mx)
    seen={key_of(m0)}; frontier=collections.deque([(m0,{},0,False)]); trans=0; viol=0; flushes=0; grows=0
    t0=time.time()
    while frontier:
        m,ref,d,_=frontier.popleft()
        if d>=depth: continue
        for ki,k in enumerate(keys):
            for v in vals:
                m2=copy(m); size_before=len(m2[0]),len(m2[1])
                m3=arraymap.set(m2,k,v,empty_if_full=True); trans+=1
                ref2=dict(ref); 
                flushed = (m3[3]==1 and m3[4]==0)
                if flushed: ref2={}; flushes+=1
                else: ref2[ki]=v
                if (len(m3[0]),len(m3[1]))!=size_before: grows+=1
                # invariant: every key
                for kj,kk in enumerate(keys):
                    g=arraymap.get(m3,kk)
                    if kj in ref2:
                        if not (g==ref2[kj]): viol+=1; print("VIOL stale/miss",L,b,init,mx,"after set",k,v,"key",kk,"got",g,"exp",ref2[kj]) if viol<5 else None
                    else:
                        if not math.isnan(g): viol+=1; print("VIOL phantom",L,b,init,mx,"after set",k,v,"key",kk,"got",g) if viol<5 else None
                # structural: counters in range
                if not (1<=m3[3]<len(m3[0]) and 0<=m3[4]<len(m3[1])): viol+=1; print("VIOL counters",m3[3],len(m3[0]),m3[4],len(m3[1])) if viol<5 else None
                kk_=key_of(m3)
                if kk_ not in seen:
                    seen.add(kk_); frontier.append((m3,ref2,d+1,flushed))
    return dict(L=L,b=b,init=init,mx=mx,depth=depth,states=len(seen),transitions=trans,flushes=flushes,grows=grows,viol=viol,secs=round(time.time()-t0,1))
for cfg in [(2,2,2,8,6),(2,2,2,4,6),(3,2,2,8,5),(2,3,2,16,4),(3,2,4,16,5),(2,2,3,6,6)]:
    print(explore(*cfg),flush=True)
