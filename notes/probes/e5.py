import numpy as np, warnings
warnings.simplefilter("ignore")
from numba.typed import Dict
from numba import types
from mchap.pedigree.mcmc import pair_allele_swap_step, sample_children_matrix, parental_pair_markov_blankets
from mchap.assemble.likelihood import log_likelihood
from mchap.jitutils import genotype_alleles_as_index, seed_numba
haplotypes=np.array([[0,0],[0,1],[1,0],[1,1]])
e=0.01
def rd(h): # one-hot-ish read for haplotype h
    r=np.full((2,2),e); 
    for j,a in enumerate(h): r[j,a]=1-e
    return r
# sample 0 (p): 1 distinct read; sample 1 (q): 3 distinct reads ; child 2
reads=np.full((3,3,2,2),np.nan); counts=np.zeros((3,3),np.int64)
reads[0,0]=rd([0,0]); counts[0,0]=5
reads[1,0]=rd([0,1]); counts[1,0]=2
reads[1,1]=rd([1,0]); counts[1,1]=3
reads[1,2]=rd([1,1]); counts[1,2]=4
reads[2,0]=rd([0,0]); counts[2,0]=1
parents=np.array([[-1,-1],[-1,-1],[0,1]])
children=sample_children_matrix(parents)
pairs,blankets=parental_pair_markov_blankets(parents,children)
geno=np.array([[0,1],[2,3],[0,2]])
ploidy=np.array([2,2,2]); tau=np.array([[1,1]]*3); lam=np.zeros((3,2)); err=np.full((3,2),0.01)
logf=np.log(np.full(4,0.25))
cache=Dict.empty(key_type=types.UniTuple(types.int64,2), value_type=types.float64)
cache[(-1,-1)]=np.nan
sc=[np.zeros(2,np.int64) for _ in range(7)]; dlf=np.zeros(2)
seed_numba(3)
for it in range(20):
    g=geno.copy()
    pair_allele_swap_step(pairs[0,0],pairs[0,1],blankets[0],g,ploidy,parents,tau,lam,err,reads,counts,haplotypes,logf,cache,*sc,dlf)
bad=0
for (s,gi),v in cache.items():
    if s<0: continue
    from mchap.jitutils import index_as_genotype_alleles
    al=index_as_genotype_alleles(gi,2)
    idx=counts[s]>0
    true=log_likelihood(reads[s][idx], haplotypes[al], counts[s][idx])
    ok=abs(true-v)<1e-9
    bad+= (not ok)
    print(s,al,v,true,"OK" if ok else "MISMATCH")
print("incoherent entries:",bad)
