import numpy as np, itertools, math, warnings, sys, types
warnings.simplefilter("ignore")
sys.path.insert(0,"/tmp/exp")
from ref import *
import mchap.pedigree.mcmc as pm
from mchap.pedigree.mcmc import gibbs_probabilities, metropolis_hastings_probabilities, sample_children_matrix, parental_pair_markov_blankets
haps=np.array([[0,0],[0,1],[1,1]]); alleles=[0,1,2]
freqs={0:0.5,1:0.3,2:0.2}; logf=np.log(np.array([freqs[a] for a in alleles]))
e=0.05
def rd(h):
    return [[1-e if a==x else e for a in range(2)] for x in h]
def mkreads(spec): # spec per sample list of (hap, count)
    n=len(spec); mr=max(len(s) for s in spec)
    R=np.full((n,mr,2,2),np.nan); C=np.zeros((n,mr),np.int64); ref=[]
    for i,s in enumerate(spec):
        rr=[];cc=[]
        for k,(h,c) in enumerate(s):
            r=rd(h); R[i,k]=np.array(r); C[i,k]=c; rr.append(r); cc.append(c)
        ref.append((rr,cc))
    return R,C,ref
PEDS={
 "trio2x": dict(parents=[[-1,-1],[-1,-1],[0,1]], ploidy=[2,2,2], tau=[[1,1],[1,1],[1,1]], lam=[[0,0]]*3),
 "halfsib": dict(parents=[[-1,-1],[0,-1],[0,-1]], ploidy=[2,2,2], tau=[[1,1],[1,1],[1,1]], lam=[[0,0]]*3),
 "self": dict(parents=[[-1,-1],[0,0]], ploidy=[2,2], tau=[[1,1],[1,1]], lam=[[0,0]]*2),
 "mixed": dict(parents=[[-1,-1],[-1,-1],[0,1]], ploidy=[2,4,3], tau=[[1,1],[2,2],[1,2]], lam=[[0,0],[0.1,0.1],[0,0.2]]),
 "unbal": dict(parents=[[-1,-1],[-1,-1],[0,1]], ploidy=[2,2,4], tau=[[1,1],[1,1],[2,2]], lam=[[0,0],[0,0],[0.3,0.0]]),
}
def joint_ord(state, ped, refreads, err):
    # state: list of tuples (ordered alleles); returns prob of ordered joint
    lp=0.0
    for i,g in enumerate(state):
        ms=tuple(sorted(g))
        rr,cc=refreads[i]
        lp+=llk(rr,cc,[haps[a] for a in ms])
        p,q=ped["parents"][i]
        P=tuple(sorted(state[p])) if p>=0 else None
        Q=tuple(sorted(state[q])) if q>=0 else None
        d=trio_pmf(P,Q,ped["tau"][i][0],ped["tau"][i][1],ped["lam"][i][0],ped["lam"][i][1],err[i][0],err[i][1],alleles,freqs)
        pr=d.get(ms,0.0)/perms(ms)
        lp+= math.log(pr) if pr>0 else -math.inf
    return lp
for name,ped in PEDS.items():
  n=len(ped["ploidy"]); maxp=max(ped["ploidy"])
  spec=[[([0,0],1),([0,1],2)],[([1,1],1)],[([0,1],1),([1,1],1),([0,0],2)]][:n]
  R,C,refreads=mkreads(spec)
  parents=np.array(ped["parents"]); children=sample_children_matrix(parents)
  tau=np.array(ped["tau"]); lam=np.array(ped["lam"],float); ploidy=np.array(ped["ploidy"])
  for errv in (0.0,0.05,0.6):
    err=np.full((n,2),errv)
    sc=[np.zeros(maxp,np.int64) for _ in range(7)]+[np.zeros(maxp)]
    spaces=[multisets(alleles,p) for p in ped["ploidy"]]
    worstg=0;worstm=0;cnt=0
    for st in itertools.product(*spaces):
        G=np.full((n,maxp),-2,np.int64)
        for i,g in enumerate(st): G[i,:len(g)]=g
        base=joint_ord([tuple(g) for g in st],ped,refreads,err)
        for t in range(n):
            for k in range(ploidy[t]):
                # exact conditional
                lps=[]
                for a in alleles:
                    s2=[list(g) for g in st]; s2[t][k]=a
                    lps.append(joint_ord([tuple(g) for g in s2],ped,refreads,err))
                m=max(lps)
                if m==-math.inf: continue
                w=np.exp(np.array(lps)-m); cond=w/w.sum()
                if base>-math.inf:
                    gp=gibbs_probabilities(t,k,G.copy(),ploidy,parents,children,tau,lam,err,R,C,haps,logf,None,*sc)
                    d=np.abs(gp-cond).max(); worstg=max(worstg,d); cnt+=1
                    if d>1e-8 and worstg==d: print("GIBBS",name,errv,st,t,k,gp,cond)
                    mh=metropolis_hastings_probabilities(t,k,G.copy(),ploidy,parents,children,tau,lam,err,R,C,haps,logf,None,*sc)
                    # DB: pi(cur)*mh[a] == pi(a-state)*mh_rev[cur]
                    cur=st[t][k]
                    for a in alleles:
                        if a==cur or lps[a]==-math.inf: continue
                        G2=G.copy(); G2[t,k]=a
                        mh2=metropolis_hastings_probabilities(t,k,G2,ploidy,parents,children,tau,lam,err,R,C,haps,logf,None,*sc)
                        f1=math.exp(lps[cur]-m)*mh[a]; f2=math.exp(lps[a]-m)*mh2[cur]
                        d=abs(f1-f2)/max(f1,f2,1e-300); 
                        if max(f1,f2)>1e-12: worstm=max(worstm,d)
    print(name,errv,"states",int(np.prod([len(s) for s in spaces])),"checked",cnt,"gibbs worst",worstg,"mh DB worst",worstm,flush=True)
