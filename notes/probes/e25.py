import numpy as np, itertools, warnings, numba
warnings.simplefilter("ignore")
from mchap.assemble import DenovoMCMC
from mchap.calling.classes import CallingMCMC
from mchap.pedigree.classes import PedigreeCallingMCMC
from mchap.jitutils import seed_numba
@numba.njit
def nbdraw(): return np.random.random()
e=0.02
def rd(h): return [[1-e if a==x else e for a in range(2)] for x in h]
RA=np.array([rd([0,1,0]),rd([1,1,0]),rd([0,0,1])]); CA=np.array([2,1,3])
RB=np.array([rd([1,1,1]),rd([0,1,1])]); CB=np.array([4,1])
haps=np.array([[0,0,0],[0,1,0],[1,1,0],[0,0,1]])
def fitA(): 
    t=DenovoMCMC(ploidy=4,n_alleles=[2,2,2],steps=60,chains=2,random_seed=7,temperatures=(0.5,1.0),llk_cache_threshold=0).fit(RA,CA); return t.genotypes.tobytes()+t.llks.tobytes()
def fitB():
    t=DenovoMCMC(ploidy=2,n_alleles=[2,2,2],steps=40,random_seed=7).fit(RB,CB); return t.genotypes.tobytes()
def callA():
    t=CallingMCMC(ploidy=4,haplotypes=haps,steps=60,random_seed=7).fit(RA,CA); return t.genotypes.tobytes()+t.llks.tobytes()
def pedA():
    m=PedigreeCallingMCMC(sample_ploidy=np.array([2,2,2]),sample_inbreeding=np.zeros(3),sample_parents=np.array([[-1,-1],[-1,-1],[0,1]]),gamete_tau=np.ones((3,2),int),gamete_lambda=np.zeros((3,2)),gamete_error=np.full((3,2),0.01),haplotypes=haps,steps=40,annealing=10,random_seed=7)
    return m.fit(np.tile(RA,(3,1,1,1)),np.tile(CA,(3,1))).genotypes.tobytes()
ops={"fitA":fitA,"fitB":fitB,"callA":callA,"pedA":pedA,"nprand":lambda: np.random.rand(),"nbdraw":lambda: nbdraw(),"npseed":lambda: np.random.seed(99),"nbseed":lambda: seed_numba(123)}
base={k:ops[k]() for k in ("fitA","fitB","callA","pedA")}
n=0;viol=0
for depth in (1,2,3):
    for seq in itertools.product(ops,repeat=depth):
        for target in ("fitA","callA","pedA"):
            for o in seq: ops[o]()
            n+=1
            if ops[target]()!=base[target]: viol+=1; print("HISTORY DEPENDENT",seq,target)
print("histories",n,"viol",viol)
