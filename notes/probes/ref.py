# throwaway reference model (prototype)
import itertools, math
from collections import Counter
from fractions import Fraction
def multisets(items, k): return list(itertools.combinations_with_replacement(items, k))
def perms(ms):
    c=Counter(ms); r=math.factorial(len(ms))
    for v in c.values(): r//=math.factorial(v)
    return r
def read_lik(read, hap):  # read: list per site of list probs or None(gap)
    p=1.0
    for site,a in zip(read,hap):
        if site is None: continue
        p*=site[a]
    return p
def llk(reads, counts, genotype_haps):
    t=0.0
    for r,c in zip(reads,counts):
        m=sum(read_lik(r,h) for h in genotype_haps)/len(genotype_haps)
        t+= c*math.log(m) if m>0 else -math.inf
    return t
def dm_prior(ms, alphas_or_freqs, F):
    # ms: tuple of allele ids; freqs dict allele->freq ; multinomial if F==0 else DM alpha=freq*(1-F)/F
    k=len(ms); c=Counter(ms)
    if F==0:
        p=perms(ms)
        for a,d in c.items(): p*=alphas_or_freqs[a]**d
        return p
    s=(1-F)/F
    def rising(x,n):
        r=1.0
        for i in range(n): r*=(x+i)
        return r
    num=1.0
    for a,d in c.items(): num*=rising(alphas_or_freqs[a]*s,d)
    tot=sum(alphas_or_freqs.values())*s
    return perms(ms)*num/rising(tot,k)
# inheritance
def gamete_dist(parent, tau, lam):
    """distribution over gamete multisets from parent (tuple of alleles)"""
    out=Counter()
    n=len(parent)
    if tau==0: return {():1.0}
    subs=list(itertools.combinations(range(n),tau))
    for s in subs:
        out[tuple(sorted(parent[i] for i in s))]+= (1-lam)/len(subs)
    if lam>0:
        assert tau==2
        for i in range(n):
            out[(parent[i],parent[i])]+=lam/n
    return {k:v for k,v in out.items() if v>0}
def random_gamete_dist(alleles,freqs,tau):
    out={}
    for ms in multisets(alleles,tau):
        p=perms(ms)
        for a in ms: p*=freqs[a]
        out[ms]=p
    return out
def trio_pmf(parent_p,parent_q,tau_p,tau_q,lam_p,lam_q,err_p,err_q,alleles,freqs):
    """dist over progeny multisets. parent None => unknown (error=1)"""
    def side(parent,tau,lam,err):
        d=Counter()
        if tau==0: return {():1.0}
        if parent is None: err=1.0
        if err<1:
            for g,p in gamete_dist(parent,tau,lam).items(): d[g]+=(1-err)*p
        if err>0:
            for g,p in random_gamete_dist(alleles,freqs,tau).items(): d[g]+=err*p
        return d
    dp=side(parent_p,tau_p,lam_p,err_p); dq=side(parent_q,tau_q,lam_q,err_q)
    out=Counter()
    for gp,pp in dp.items():
        for gq,pq in dq.items():
            out[tuple(sorted(gp+gq))]+=pp*pq
    return out
