import numpy as np, pysam, os, warnings
warnings.simplefilter("ignore")
from mchap.application.find_snvs import bam_region_depths
ref = "ACGTACGTACGTACGTACGTACGTACGTACGTACGTACGT"
open("ref.fa","w").write(">chr1\n"+ref+"\n")
pysam.faidx("ref.fa")
header = {"HD":{"VN":"1.6","SO":"coordinate"},"SQ":[{"SN":"chr1","LN":len(ref)}],"RG":[{"ID":"rg1","SM":"S1"}]}
def mk(name, flag, mapq, pos=0, seq=None, qual=30):
    a = pysam.AlignedSegment()
    a.query_name=name; a.flag=flag; a.reference_id=0; a.reference_start=pos; a.mapping_quality=mapq
    s = seq or ref[pos:pos+20]
    a.query_sequence=s; a.cigar=[(0,len(s))]; a.query_qualities=pysam.qualitystring_to_array(chr(33+qual)*len(s))
    a.set_tag("RG","rg1"); a.set_tag("MD",str(len(s)))
    return a
reads = [
 ("plain",0,60,30),
 ("lowmapq",0,5,30),
 ("dup",0x400,60,30),
 ("qcfail",0x200,60,30),
 ("supp",0x800,60,30),
 ("lowbq",0,60,5),
 ("secondary",0x100,60,30),
]
with pysam.AlignmentFile("t.bam","wb",header=header) as f:
    for n,fl,mq,bq in reads:
        f.write(mk(n,fl,mq,qual=bq))
pysam.index("t.bam")
for kw in [dict(), dict(min_quality=20), dict(min_quality=20, skip_duplicates=False, skip_qcfail=False, skip_supplementary=False),
           dict(min_quality=0, skip_duplicates=True, skip_qcfail=True, skip_supplementary=True)]:
    d = bam_region_depths(["t.bam"], "ref.fa", "chr1", 0, 4, **kw)
    print(kw, d[:,0,:].sum(axis=1))
