import pysam, numpy as np, warnings, traceback
warnings.simplefilter("ignore")
from mchap.io import LocusPrior
hdr = """##fileformat=VCFv4.3
##contig=<ID=CHR1,length=60>
##INFO=<ID=AC,Number=A,Type=Integer,Description="x">
##INFO=<ID=AD,Number=R,Type=Integer,Description="x">
##INFO=<ID=AFP,Number=R,Type=Float,Description="x">
##INFO=<ID=REFMASKED,Number=0,Type=Flag,Description="x">
##INFO=<ID=SNVPOS,Number=.,Type=Integer,Description="x">
#CHROM	POS	ID	REF	ALT	QUAL	FILTER	INFO
"""
recs = [
 "CHR1\t6\tr1\tAAAA\tACAA,AAGA\t.\t.\tAC=3,2;AD=10,5,5;AFP=0.5,0.3,0.2;SNVPOS=2,3",
 "CHR1\t16\tr2\tAAAA\tACAA,AAGA\t.\t.\tAC=3,2;AD=10,0,5;AFP=0.5,0,0.5;SNVPOS=2,3",
 "CHR1\t26\tr3\tAAAA\tACAA,AAGA\t.\t.\tAC=3,2;AD=10,.,5;AFP=0.5,.,0.5;SNVPOS=2,3",
]
open("t7.vcf","w").write(hdr+"\n".join(recs)+"\n")
with pysam.VariantFile("t7.vcf") as f:
    for rec in f:
        for tag,flt in [("AD",None),("AFP",None),("AFP","AFP>=0.3"),("AFP","AC>2"),("AFP","AFP>0.6"),(None,"AD<1")]:
            try:
                lp=LocusPrior.from_variant_record(rec,frequency_tag=tag,allele_filter=flt)
                print(rec.id,tag,flt,"->",lp.alts,lp.frequencies,lp.mask_reference_allele, [v.alleles for v in lp.variants])
            except Exception as e:
                print(rec.id,tag,flt,"EXC",type(e).__name__,str(e)[:100])
