import numpy as np, itertools, math, warnings, sys
warnings.simplefilter("ignore")
sys.path.insert(0,"/tmp/exp")
from ref import *
from mchap.calling.mcmc import gibbs_options, mh_options
from mchap.calling.exact import posterior_mode, genotype_likelihoods, genotype_posteriors, posterior_allele_frequencies, alternate_dosage_posteriors
from mchap.calling.prior import log_genotype_prior, log_genotype_allele_prior
from mchap.assemble.prior import log_genotype_prior as asm_prior
from mchap.jitutils import get_haplotype_dosage
e=0.03
def rd(h,n_all=2):
    return [[1-e if a==x else e/3 for a in range(n_all)] for x in h]
worst=dict(gibbs=0,mh=0,exact=0,freq=0,prior=0,cond=0)
for haps in [np.array([[0,0],[0,1],[1,1]]), np.array([[0,0,0],[0,1,1],[1,1,0],[1,0,1]])]:
  nh=len(haps); A=list(range(nh))
  reads_ref=[rd(haps[0]),rd(haps[1]),[None]+rd(haps[-1])[1:]]; counts=[2,1,3]
  R=np.array([[s if s is not None else [np.nan,np.nan] for s in r] for r in reads_ref],float); C=np.array(counts)
  for ploidy in (1,2,3,4):
    for F in (0.0,0.2):
      for fr in (None, [1/nh]*nh, list(np.array([4,2,1,1][:nh])/sum([4,2,1,1][:nh])), ([0.0]+[1/(nh-1)]*(nh-1))):
        fd={a:(1/nh if fr is None else fr[a]) for a in A}
        farr=None if fr is None else np.array(fr,float)
        G=multisets(A,ploidy)
        post={}
        for g in G:
            pr=dm_prior(g,fd,F); l=llk(reads_ref,counts,[haps[a] for a in g])
            post[g]=pr*math.exp(l)
            lp=log_genotype_prior(np.array(g),nh,F,farr)
            worst['prior']=max(worst['prior'],abs(math.exp(lp)-pr))
        Z=sum(post.values()); post={g:v/Z for g,v in post.items()}
        # exact module
        l32=genotype_likelihoods(R,ploidy,haps,C); gp=genotype_posteriors(l32.astype(np.float64),ploidy,nh,F,farr if farr is not None else None)
        # VCF order reference
        order=sorted(G,key=lambda g: tuple(reversed(g)))
        worst['exact']=max(worst['exact'],max(abs(gp[i]-post[g]) for i,g in enumerate(order)))
        res=posterior_mode(R,ploidy,haps,C,F,farr,True,True,True)
        mg=tuple(res[0]); 
        worst['exact']=max(worst['exact'],abs(res[2]-post[mg]), abs(post[mg]-max(post.values())))
        sup=sum(v for g,v in post.items() if set(g)==set(mg)); worst['exact']=max(worst['exact'],abs(res[3]-sup))
        afp=[sum(v*g.count(a) for g,v in post.items())/ploidy for a in A]; aop=[sum(v for g,v in post.items() if a in g) for a in A]
        worst['freq']=max(worst['freq'],np.abs(res[4]-afp).max(),np.abs(res[5]-aop).max())
        # gibbs / mh on every ordered state & position
        for g in G:
          if post[g]==0: continue
          for perm in set(itertools.permutations(g)):
            ga=np.array(perm)
            for k in range(ploidy):
                ll=np.zeros(nh);lpv=np.zeros(nh);pv=np.zeros(nh)
                gibbs_options(ga.copy(),k,haps,R,C,F,ll,lpv,pv,farr,None)
                w=[]
                for a in A:
                    g2=list(perm); g2[k]=a; ms=tuple(sorted(g2)); w.append(post[ms]/perms(ms))
                w=np.array(w)/sum(w)
                worst['gibbs']=max(worst['gibbs'],np.abs(pv-w).max())
                mh_options(ga.copy(),k,haps,R,C,F,ll,lpv,pv,farr,None)
                cur=perm[k]
                for a in A:
                    if a==cur: continue
                    g2=list(perm); g2[k]=a; ms=tuple(sorted(g2))
                    if post[ms]==0:
                        worst['mh']=max(worst['mh'],pv[a]); continue
                    pv2=np.zeros(nh); mh_options(np.array(g2),k,haps,R,C,F,ll,lpv,pv2,farr,None)
                    f1=post[g]/perms(g)*pv[a]; f2=post[ms]/perms(ms)*pv2[cur]
                    worst['mh']=max(worst['mh'],abs(f1-f2)/max(f1,f2))
  print(nh,worst,flush=True)
