import numpy as np, itertools, warnings, pysam
warnings.simplefilter("ignore")
from mchap.io import LocusPrior
h=pysam.VariantHeader(); h.add_line("##contig=<ID=chr1,length=100>"); h.add_line('##INFO=<ID=REFMASKED,Number=0,Type=Flag,Description="x">'); h.add_line('##INFO=<ID=SNVPOS,Number=.,Type=Integer,Description="x">')
n=0;viol=0
for ref in ("AAA","ACA","GAT"):
    alts_all=["".join(t) for t in itertools.product("ACGT",repeat=3) if "".join(t)!=ref]
    for k in (1,2):
        for alts in itertools.permutations(alts_all,k):
            rec=h.new_record(contig="chr1",start=10,stop=13,alleles=(ref,)+alts if alts else (ref,),id="x")
            lp=LocusPrior.from_variant_record(rec); n+=1
            seqs=(ref,)+alts
            enc=lp.encode_haplotypes()
            poly=[i for i in range(3) if len({s[i] for s in seqs})>1]
            pos=[p-lp.start for p in lp.positions]
            if pos!=poly: viol+=1; print("POS",seqs,pos,poly)
            back=lp.format_haplotypes(enc) if len(pos) else [lp.sequence]*len(seqs)
            if list(back)!=list(seqs): viol+=1; print("RT",seqs,back)
            if enc.shape[0]!=len(seqs) or (enc[0]!=0).any(): viol+=1; print("REF0",seqs,enc.tolist())
            # first-appearance numbering
            for j,i in enumerate(poly):
                order=[]
                for s in seqs:
                    if s[i] not in order: order.append(s[i])
                if tuple(order)!=lp.variants[j].alleles: viol+=1; print("NUM",seqs,i,order,lp.variants[j].alleles)
print("records",n,"viol",viol)
