import numpy as np, itertools, math, warnings, sys
warnings.simplefilter("ignore")
sys.path.insert(0,"/tmp/exp")
from ref import *
from mchap.pedigree.prior import trio_log_pmf
from mchap.pedigree.validation import trio_valid, duo_valid
def scratch(n): return [np.zeros(n,np.int64) for _ in range(7)]+[np.zeros(n)]
alleles=[0,1,2]
freqs={0:0.5,1:0.3,2:0.2}; logf=np.log(np.array([freqs[a] for a in alleles]))
worst=0; nviol=0; ncase=0; iffviol=0
for pl_p,pl_q in [(2,2),(4,4),(2,4),(4,2)]:
  for tau_p,tau_q in [(1,1),(2,2),(1,2),(2,1),(0,2),(2,0),(1,3),(3,1)]:
    if tau_p>pl_p or tau_q>pl_q: continue
    k=tau_p+tau_q
    for lam_p in ([0.0,0.2] if tau_p==2 else [0.0]):
      for lam_q in ([0.0,0.2] if tau_q==2 else [0.0]):
        for err in [0.0,0.01,1.0]:
          for P in multisets(alleles,pl_p):
            for Q in multisets(alleles,pl_q):
              ref=trio_pmf(P,Q,tau_p,tau_q,lam_p,lam_q,err,err,alleles,freqs)
              tot=0
              for prog in multisets(alleles,k):
                n=max(k,pl_p,pl_q)
                pad=lambda g: np.array(list(g)+[-2]*(n-len(g)))
                lp=trio_log_pmf(pad(prog),pad(P),pad(Q),pl_p,pl_q,tau_p,tau_q,lam_p,lam_q,err,err,logf,*scratch(n))
                p=math.exp(lp); tot+=p
                d=abs(p-ref.get(prog,0.0)); worst=max(worst,d); ncase+=1
                if d>1e-9:
                    nviol+=1
                    if nviol<6: print("PMF MISMATCH",pl_p,pl_q,tau_p,tau_q,lam_p,lam_q,err,P,Q,prog,p,ref.get(prog,0.0))
                if err==0.0 and tau_p>0 and tau_q>0:
                    v=trio_valid(np.array(prog),np.array(P),np.array(Q),tau_p,tau_q,lam_p,lam_q)
                    if v!=(p>0):
                        iffviol+=1
                        if iffviol<6: print("IFF MISMATCH",pl_p,pl_q,tau_p,tau_q,lam_p,lam_q,P,Q,prog,p,v)
              if abs(tot-1)>1e-9: print("SUM",tot,pl_p,pl_q,tau_p,tau_q,lam_p,lam_q,err,P,Q)
print("cases",ncase,"worst",worst,"pmf viol",nviol,"iff viol",iffviol)
