import sys, warnings, pysam, os, itertools
warnings.simplefilter("ignore")
sys.path.insert(0,"/tmp/exp")
from synth_proto import *
from mchap.io import Locus, SNP, extract_read_variants
d="/tmp/exp/ds3"; os.makedirs(d,exist_ok=True)
contig="chr1"; R=REF[contig]
snv_pos=[12,17,22]; snv_alleles=[("T","C"),("A","G","T"),("T","A")]
locus=Locus(contig,8,30,"L",R[8:30],tuple(SNP(contig,p,p+1,".",a) for p,a in zip(snv_pos,snv_alleles)))
def walk(pos,cigar,seq):
    """reference pileup: {refpos: base}"""
    out={}; r=pos;q=0
    for o,n in cigar:
        if o=="M":
            for i in range(n): out[r+i]=seq[q+i]
            r+=n;q+=n
        elif o in("I","S"): q+=n
        elif o in("D","N"): r+=n
        elif o=="H": pass
    return out, r
# read shapes: (pos,cigar) ; bases at SNVs chosen after
shapes=[(8,[("M",20)]),(10,[("M",4),("I",2),("M",12)]),(9,[("M",6),("D",4),("M",10)]),(6,[("S",8),("M",12)]),(10,[("M",9),("S",6)]),(9,[("M",5),("N",6),("M",8)]),(9,[("H",3),("M",16)]),(20,[("M",8)]),(24,[("M",6)]),(0,[("M",8)]),(31,[("M",8)])]
def build_seq(pos,cigar,mut):
    qlen=sum(n for o,n in cigar if o in "MIS")
    seq=[];r=pos
    for o,n in cigar:
        if o=="M": seq+=list(R[r:r+n]); r+=n
        elif o in "IS": seq+=["G"]*n
        elif o in "DN": r+=n
    # apply mutations at SNV ref positions where aligned
    q=0;r=pos
    for o,n in cigar:
        if o=="M":
            for i in range(n):
                if r+i in mut: seq[q+i]=mut[r+i]
            q+=n;r+=n
        elif o in "IS": q+=n
        elif o in "DN": r+=n
    return "".join(seq)
muts=[{}, {12:"C",17:"T",22:"A"}, {12:"G",17:"N"}]  # non-listed base G at snv0, N
flags=[0,0x10,0x400,0x200,0x800,0x4,0x100]
mapqs=[0,19,20,60]
cases=0;viol=0
cfgs=[dict(min_quality=mq,skip_duplicates=sd,skip_qcfail=sq,skip_supplementary=ss) for mq in (0,20) for sd in (True,False) for sq in (True,False) for ss in (True,False)]
for (pos,cig),mut,flag,mapq in itertools.product(shapes,muts,flags,mapqs):
    seq=build_seq(pos,cig,mut)
    reads=[dict(name="r1",contig=contig,pos=pos,cigar=cig,seq=seq,flag=flag,mapq=mapq,rg="rg1")]
    try:
        write_bam(f"{d}/t.bam",[("rg1","S1"),("rg2","S2")],reads)
    except Exception as e:
        print("BAM build fail",pos,cig,e); continue
    pile,end=walk(pos,cig,seq)
    overl = (pos<30 and end>8)
    for cfg in cfgs:
        cases+=1
        keep = overl and not (flag&0x4) and mapq>=cfg["min_quality"] and not (flag&0x400 and cfg["skip_duplicates"]) and not (flag&0x200 and cfg["skip_qcfail"]) and not (flag&0x800 and cfg["skip_supplementary"])
        exp={}
        if keep:
            exp={"r1":"".join(pile.get(p,"-") for p in snv_pos)}
        try:
            with pysam.AlignmentFile(f"{d}/t.bam") as f:
                got=extract_read_variants(locus,f,samples="S1",id="SM",read_dicts=True,**cfg)["S1"]
            got={k:"".join(v[0]) for k,v in got.items()}
        except Exception as e:
            got=f"EXC {type(e).__name__} {e}"
        if got!=exp:
            viol+=1
            if viol<15: print("MISMATCH",pos,cig,mut,hex(flag),mapq,cfg,"exp",exp,"got",got)
print("cases",cases,"viol",viol)
