import math, warnings
warnings.simplefilter("ignore")
from mchap.jitutils import comb, comb_with_replacement, _comb
from mchap.combinatorics import count_unique_genotypes
bad_cwr=[];bad_cug=[];bad_comb=[]
LIM=2**53
for ploidy in range(1,81):
    for n in range(1,2000):
        N=math.comb(n+ploidy-1,ploidy)
        if N>=LIM: break
        try:
            v=comb_with_replacement(n,ploidy)
        except Exception as e:
            v=repr(e)
        if v!=N: bad_cwr.append((n,ploidy,N,v))
        w=count_unique_genotypes(n,ploidy)
        if w!=N: bad_cug.append((n,ploidy,N,w))
print("cwr mismatches",len(bad_cwr),bad_cwr[:5])
print("count_unique_genotypes mismatches",len(bad_cug),bad_cug[:5])
# where do they begin (min ploidy)
print(min((p for _,p,_,_ in bad_cwr),default=None), min((p for _,p,_,_ in bad_cug),default=None))
print(min((N for _,_,N,_ in bad_cug),default=None))
