# prototype: controlled-scheduler exploration of program._run_stdout_multi_core
import threading, sys, io, time, types, warnings
warnings.simplefilter("ignore")
import numpy as np
import mchap.application.baseclass as bc

class Deadlock(Exception): pass
class Task:
    def __init__(self, sched, fn, args, name):
        self.sched=sched; self.fn=fn; self.args=args; self.name=name
        self.sem=threading.Semaphore(0); self.done=False; self.exc=None; self.result=None
        self.blocked_on=None; self.npoints=0
        self.thread=threading.Thread(target=self._run, daemon=True)
    def _run(self):
        self.sem.acquire()
        try:
            if self.sched.abort: raise SystemExit
            self.result=self.fn(*self.args)
        except SystemExit: pass
        except BaseException as e: self.exc=e
        self.done=True
        self.sched.ctl.release()
class Sched:
    def __init__(self, choices):
        self.tasks=[]; self.ctl=threading.Semaphore(0); self.choices=list(choices); self.trace=[]; self.points=[]
        self.current=None; self.abort=False; self.queues=[]; self.n_enabled_at_stop=0
    def spawn(self, fn, args, name):
        t=Task(self,fn,args,name); self.tasks.append(t); t.thread.start(); return t
    def point(self, enabled=None):
        # called from a task thread: yield to controller
        t=self.current; t.blocked_on=enabled; t.npoints+=1
        self.ctl.release(); t.sem.acquire()
        if self.abort: raise SystemExit
    def enabled(self):
        return [t for t in self.tasks if not t.done and (t.blocked_on is None or t.blocked_on())]
    def run(self, main_fn, stop_after=None):
        main=self.spawn(main_fn,(), "main")
        step=0; self.final=False
        while True:
            en=self.enabled()
            if main.done: self.final=True; break
            if stop_after is not None and step>=stop_after:
                self.n_enabled_at_stop=len(en); break
            if not en: raise Deadlock(self.trace)
            # canonical order: current first if enabled
            c=self.choices[step] if step<len(self.choices) else 0
            self.points.append(len(en)); 
            t=en[c]; self.trace.append(t.name); self.current=t; step+=1
            t.blocked_on=None
            t.sem.release(); self.ctl.acquire()
        # kill leftovers
        self.abort=True
        for t in self.tasks:
            if not t.done: t.sem.release()
        return main
class VQueue:
    def __init__(self,s): self.s=s; self.items=[]; s.queues.append(self)
    def put(self,x):
        self.s.point(); self.items.append(x)
    def get(self):
        self.s.point(lambda: len(self.items)>0); return self.items.pop(0)
class VResult:
    def __init__(self,s,t): self.s=s; self.t=t
    def get(self):
        self.s.point(lambda: self.t.done)
        if self.t.exc: raise self.t.exc
        return self.t.result
class VPool:
    def __init__(self,s,n): self.s=s; self.n=n; self.ts=[]
    def apply_async(self,fn,args=()):
        t=self.s.spawn(fn,args,f"T{len(self.ts)}"); self.ts.append(t); self.s.point(); return VResult(self.s,t)
    def close(self): self.s.point()
    def join(self): self.s.point(lambda: all(t.done for t in self.ts))
def vmp(s):
    m=types.SimpleNamespace()
    m.Manager=lambda: types.SimpleNamespace(Queue=lambda: VQueue(s))
    m.Pool=lambda n: VPool(s,n)
    return m

class P(bc.program):
    def header(self): return ["##h"]
    def loci(self): return iter(self._loci)
    def call_locus(self, locus, sample_bams):
        if locus==self._fail: raise RuntimeError("boom")
        return f"REC{locus}"
class Out:
    def __init__(self,s): self.s=s; self.chunks=[]
    def write(self,x): self.chunks.append((self.s.current.name if self.s.current else None,x))
    def flush(self): pass

def run(choices, nloci, ncores, fail=None, stop_after=None):
    s=Sched(choices); bc.mp=vmp(s)
    p=P(vcf="",ref="",samples=[],sample_bams={},sample_ploidy={},sample_inbreeding={},info_fields=[],format_fields=[],n_cores=ncores)
    p._loci=list(range(nloci)); p._fail=fail
    class L:  # locus stand-in for error message formatting
        pass
    out=Out(s); old=sys.stdout; sys.stdout=out
    try: main=s.run(p._run_stdout_multi_core, stop_after)
    finally: sys.stdout=old
    return s,main,out,s.final

def state_key(s,out):
    return (tuple((t.name,t.npoints,t.done,type(t.exc).__name__ if t.exc else None) for t in s.tasks), tuple(s.queues[0].items) if s.queues else (), tuple(x for _,x in out.chunks))
def explore(nloci,ncores,fail=None):
    import collections
    seen=set(); frontier=collections.deque([[]]); n=0; trans=0; outcomes=set(); t0=time.time(); maxdepth=0
    while frontier:
        pref=frontier.popleft()
        s,main,out,final=run(pref,nloci,ncores,fail,stop_after=len(pref)); n+=1
        # s stopped after len(pref) steps: enumerate enabled
        if final:
            text="".join(x for _,x in out.chunks); lines=text.split("\n")
            outcomes.add((tuple(lines[1:-1]), type(main.exc).__name__ if main.exc else None))
            if fail is None:
                assert main.exc is None, main.exc
                assert sorted(lines[1:-1])==sorted(f"REC{i}" for i in range(nloci)), lines
            else:
                assert main.exc is not None
            continue
        for alt in range(s.n_enabled_at_stop):
            s2,main2,out2,final2=run(pref+[alt],nloci,ncores,fail,stop_after=len(pref)+1); trans+=1
            k=state_key(s2,out2)
            if k not in seen:
                seen.add(k); frontier.append(pref+[alt]); maxdepth=max(maxdepth,len(pref)+1)
    return dict(runs=n,states=len(seen),transitions=trans,outcomes=len(outcomes),depth=maxdepth,secs=round(time.time()-t0,1))
for nloci,ncores,fail in [(2,2,None),(3,2,None),(3,2,1),(4,2,None),(3,3,None),(4,3,2)]:
    try:
        print(nloci,ncores,fail, explore(nloci,ncores,fail),flush=True)
    except Exception as e:
        import traceback; traceback.print_exc(); break
