import numpy as np, numba, warnings
warnings.simplefilter("ignore")
from mchap.jitutils import seed_numba, random_choice
from mchap.assemble import mutation
from mchap.assemble.likelihood import log_likelihood
import mchap.assemble.mutation as m
@numba.njit
def draw(): return np.random.random()
reads=np.array([[[0.9,0.1],[0.2,0.8]],[[0.3,0.7],[0.6,0.4]]]); g=np.array([[0,0],[0,1]],np.int8)
llk=log_likelihood(reads,g)
class F:
    def __call__(s,p): s.p=np.array(p); return int(g[1,1])
f=F(); m.random_choice=f
mutation.base_step.py_func(g.copy(),reads,llk,1,1,2,np.log(4.0)); m.random_choice=random_choice
ok=0
for seed in range(200):
    seed_numba(seed); u=draw()
    pred=int(np.searchsorted(np.cumsum(f.p),u,side="right"))
    seed_numba(seed); g2=g.copy(); l2,_=mutation.base_step(g2,reads,llk,1,1,2,np.log(4.0))
    ok+= (int(g2[1,1])==pred)
print("model p",f.p,"agree",ok,"/200")
