import numpy as np, warnings
warnings.simplefilter("ignore")
from mchap.application.assemble import _genotype_posterior_as_array, _genotype_as_alleles
from mchap.assemble.classes import PosteriorGenotypeDistribution
from mchap.assemble import call_posterior_haplotypes
A=[0,1]; B=[1,0]; C=[1,1]
post = PosteriorGenotypeDistribution(np.array([[A,B],[A,A],[B,C]],np.int8), np.array([0.6,0.3,0.1]))
for thr in (0.05,0.2):
    haps, ref_called = call_posterior_haplotypes([post], threshold=thr)
    labels = {h.tobytes(): i for i,h in enumerate(haps)}
    if not ref_called: labels.pop(haps[0].tobytes())
    print(thr, haps.tolist(), ref_called)
    try:
        gp=_genotype_posterior_as_array(post, labels)
        print(" GP len", len(gp), gp, "expected G=", (len(haps)*(len(haps)+1))//2)
    except Exception as e:
        print(" EXC", type(e).__name__, e)
