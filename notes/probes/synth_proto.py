import os, io, sys, contextlib, time, warnings, itertools
warnings.simplefilter("ignore")
import numpy as np, pysam
OPS={"M":0,"I":1,"D":2,"N":3,"S":4,"H":5}
REF={"chr1":"ACGTTGCAAGCTTAGCCATGGATCCGTACGATTGCAACGTAGCTAGGCTTAACGGATCCA", "chr2":"TTGACCGATAGGCTAACGTTAGCATCGGATTACGCTAGGATCCATGCAAGTCGATCGTAA"}
def write_ref(d):
    p=f"{d}/ref.fa"
    with open(p,"w") as f:
        for k,v in REF.items(): f.write(f">{k}\n{v}\n")
    pysam.faidx(p); return p
def write_snvs(d, snvs):
    # snvs: list of (contig,pos0,ref,alts)
    p=f"{d}/snvs.vcf"
    with open(p,"w") as f:
        f.write("##fileformat=VCFv4.3\n")
        for k,v in REF.items(): f.write(f"##contig=<ID={k},length={len(v)}>\n")
        f.write("#CHROM\tPOS\tID\tREF\tALT\tQUAL\tFILTER\tINFO\n")
        for c,pos,r,alts in sorted(snvs): f.write(f"{c}\t{pos+1}\t.\t{r}\t{','.join(alts)}\t.\t.\t.\n")
    pysam.tabix_index(p,preset="vcf",force=True); return p+".gz"
def write_bed(d,loci):
    p=f"{d}/targets.bed"
    with open(p,"w") as f:
        for c,s,e,n in loci: f.write(f"{c}\t{s}\t{e}\t{n}\n")
    return p
def mkread(hdr,name,contig,pos,cigar,seq,flag=0,mapq=60,rg="rg1",qual=30):
    ref=REF[contig]
    a=pysam.AlignedSegment(hdr); a.query_name=name; a.flag=flag; a.reference_id=hdr.get_tid(contig); a.reference_start=pos; a.mapping_quality=mapq
    a.query_sequence=seq; a.cigartuples=[(OPS[o],n) for o,n in cigar]
    a.query_qualities=pysam.qualitystring_to_array(chr(33+qual)*len(seq))
    md="";run=0;r=pos;q=0
    for o,n in cigar:
        if o=="M":
            for i in range(n):
                if seq[q]==ref[r]: run+=1
                else: md+=str(run)+ref[r]; run=0
                q+=1;r+=1
        elif o in "IS": q+=n
        elif o=="D": md+=str(run)+"^"+ref[r:r+n]; run=0; r+=n
        elif o=="N": r+=n
    md+=str(run); a.set_tag("MD",md); a.set_tag("RG",rg)
    return a
def write_bam(path, sample_rgs, reads):
    """sample_rgs: list of (rgid, sample); reads: list of dict(name,contig,pos,cigar,seq,flag,mapq,rg)"""
    hdr=pysam.AlignmentHeader.from_dict({"HD":{"VN":"1.6","SO":"coordinate"},"SQ":[{"SN":k,"LN":len(v)} for k,v in REF.items()],"RG":[{"ID":i,"SM":s} for i,s in sample_rgs]})
    segs=[mkread(hdr,**r) for r in reads]
    segs.sort(key=lambda a:(a.reference_id,a.reference_start))
    with pysam.AlignmentFile(path,"wb",header=hdr) as f:
        for a in segs: f.write(a)
    pysam.index(path); return path
def hap_read(contig,start,length,snvs,alleles):
    """read sequence equal to ref except given alleles at snv positions"""
    s=list(REF[contig][start:start+length])
    for (c,pos,r,alts),al in zip(snvs,alleles):
        if c==contig and start<=pos<start+length and al is not None: s[pos-start]=([r]+list(alts))[al]
    return "".join(s)
def run_prog(mod, argv):
    buf=io.StringIO()
    with contextlib.redirect_stdout(buf):
        mod.program.cli(argv).run_stdout()
    return buf.getvalue()
if __name__=="__main__":
    d="/tmp/exp/ds"
    ref=write_ref(d)
    snvs=[("chr1",12,"T",("C",)),("chr1",17,"A",("G","T")),("chr1",22,"T",("A",)),("chr2",10,"G",("A",)),("chr2",14,"A",("C",))]
    vcf=write_snvs(d,snvs)
    bed=write_bed(d,[("chr1",8,30,"L1"),("chr1",35,55,"L2_nosnv"),("chr2",5,25,"L3"),("chr2",30,50,"L4_noreads")])
    l1=[s for s in snvs if s[0]=="chr1"]; l3=[s for s in snvs if s[0]=="chr2"]
    def sample_reads(prefix,rg,haps1,haps3,depth):
        out=[]
        for i in range(depth):
            h=haps1[i%len(haps1)]; out.append(dict(name=f"{prefix}a{i}",contig="chr1",pos=8+(i%3),cigar=[("M",20)],seq=hap_read("chr1",8+(i%3),20,l1,h),rg=rg))
            h=haps3[i%len(haps3)]; out.append(dict(name=f"{prefix}b{i}",contig="chr2",pos=5+(i%2),cigar=[("M",18)],seq=hap_read("chr2",5+(i%2),18,l3,h),rg=rg))
            out.append(dict(name=f"{prefix}c{i}",contig="chr1",pos=36,cigar=[("M",15)],seq=REF["chr1"][36:51],rg=rg))
        return out
    S={"S1":sample_reads("s1","rg1",[(0,0,0),(1,1,0),(1,2,1),(0,0,0)],[(0,0),(1,1)],16),
       "S2":sample_reads("s2","rg2",[(1,1,0),(1,1,0),(1,2,1),(1,2,1)],[(0,0)],12),
       "S3":sample_reads("s3","rg3",[(0,0,0)],[(1,0),(0,1)],6)}
    bams={}
    for s,(rg) in zip(S,["rg1","rg2","rg3"]):
        bams[s]=write_bam(f"{d}/{s}.bam",[(rg,s)],S[s])
    from mchap.application import assemble, call, call_exact
    common=["--reference",ref,"--ploidy","4","--report","AFP","ACP","AOP","GP","GL","SNVDP","AFPRIOR","AOPSUM"]
    t=time.time()
    out=run_prog(assemble,["mchap","assemble","--bam",*bams.values(),"--targets",bed,"--variants",vcf,"--mcmc-steps","300","--mcmc-burn","100",*[c for c in common if c!="AFPRIOR"]])
    print("assemble secs",time.time()-t)
    recs=[l for l in out.splitlines() if not l.startswith("##")]
    for l in recs: print(l[:260])
    open(f"{d}/asm.vcf","w").write(out); pysam.tabix_index(f"{d}/asm.vcf",preset="vcf",force=True)
    for mod,name in [(call,"call"),(call_exact,"call-exact")]:
        t=time.time()
        extra=["--mcmc-steps","300","--mcmc-burn","100"] if name=="call" else []
        o=run_prog(mod,["mchap",name,"--bam",*bams.values(),"--haplotypes",f"{d}/asm.vcf.gz",*extra,*common])
        print(name,"secs",time.time()-t)
        for l in o.splitlines():
            if not l.startswith("#"): print(l[:200])
    # C10: alone vs together (call-exact)
    o_all=run_prog(call_exact,["mchap","call-exact","--bam",*bams.values(),"--haplotypes",f"{d}/asm.vcf.gz",*common])
    for s in S:
        o1=run_prog(call_exact,["mchap","call-exact","--bam",bams[s],"--haplotypes",f"{d}/asm.vcf.gz",*common])
        cols_all=[l.split("\t") for l in o_all.splitlines() if not l.startswith("##")]
        idx=cols_all[0].index(s)
        a=[c[idx] for c in cols_all[1:]]; b=[l.split("\t")[9] for l in o1.splitlines() if not l.startswith("#")]
        print("alone==together",s,a==b)
