import sys, warnings, pysam
warnings.simplefilter("ignore")
sys.path.insert(0,"/tmp/exp")
from synth_proto import run_prog
from mchap.application import call, call_exact
d="/tmp/exp/ds"
import gzip; lines=gzip.open(f"{d}/asm.vcf.gz","rt").read().splitlines()
out=[]
for l in lines:
    if l.startswith("#CHROM"): out.append('##INFO=<ID=XF,Number=R,Type=Float,Description="x">')
    if not l.startswith("#"):
        f=l.split("\t"); nalt=0 if f[4]=="." else len(f[4].split(","))
        vals={0:"1",1:"0.5,0.5",2:"0.5,0.5,0",3:"0.4,0.3,0,0.3"}[nalt]
        f[7]+=";XF="+vals; l="\t".join(f[:8])  # drop samples
    elif l.startswith("#CHROM"):
        l="\t".join(l.split("\t")[:8])
    out.append(l)
open(f"{d}/hap_xf.vcf","w").write("\n".join(out)+"\n"); pysam.tabix_index(f"{d}/hap_xf.vcf",preset="vcf",force=True)
bams=[f"{d}/S1.bam",f"{d}/S2.bam",f"{d}/S3.bam"]
common=["--reference",f"{d}/ref.fa","--ploidy","4","--report","AFP","ACP","AOP","GP","AFPRIOR","AOPSUM","--prior-frequencies","XF"]
for mod,name,extra in [(call,"call",["--mcmc-steps","300","--mcmc-burn","100"]),(call_exact,"call-exact",[])]:
    try:
        o=run_prog(mod,["mchap",name,"--bam",*bams,"--haplotypes",f"{d}/hap_xf.vcf.gz",*extra,*common])
        for l in o.splitlines():
            if not l.startswith("#"):
                f=l.split("\t"); print(name,f[2],"ALT n=",0 if f[4]=="." else len(f[4].split(",")),f[7][f[7].index("AFPRIOR"):][:120]); print("    ",f[8]); print("    ",f[9][:150])
    except Exception as e:
        import traceback; traceback.print_exc()
