import sys, warnings, pysam, io, gzip, os, traceback
warnings.simplefilter("ignore")
sys.path.insert(0,"/tmp/exp")
from synth_proto import *
from vcfcheck import check, parse
from mchap.application import assemble, call, call_exact, call_pedigree
d="/tmp/exp/ds2"; os.makedirs(d,exist_ok=True)
ref=write_ref(d)
snvs=[("chr1",12,"T",("C",)),("chr1",17,"A",("G","T")),("chr1",22,"T",("A",)),("chr2",10,"G",("A",)),("chr2",14,"A",("C",))]
vcf=write_snvs(d,snvs)
bed=write_bed(d,[("chr1",8,30,"L1"),("chr1",35,55,"L2_nosnv"),("chr2",5,25,"L3_refmasked"),("chr2",30,50,"L4_noreads")])
l1=[s for s in snvs if s[0]=="chr1"]; l3=[s for s in snvs if s[0]=="chr2"]
def sample_reads(prefix,rg,haps1,haps3,depth):
    out=[]
    for i in range(depth):
        h=haps1[i%len(haps1)]; out.append(dict(name=f"{prefix}a{i}",contig="chr1",pos=8+(i%3),cigar=[("M",20)],seq=hap_read("chr1",8+(i%3),20,l1,h),rg=rg))
        h=haps3[i%len(haps3)]; out.append(dict(name=f"{prefix}b{i}",contig="chr2",pos=5+(i%2),cigar=[("M",18)],seq=hap_read("chr2",5+(i%2),18,l3,h),rg=rg))
    return out
S={"S1":sample_reads("s1","rg1",[(0,0,0),(0,0,0)],[(1,1),(1,0)],16),   # L1 hom ref ; L3 no ref hap
   "S2":sample_reads("s2","rg2",[(0,0,0)],[(1,1)],12),
   "S3":sample_reads("s3","rg3",[(0,0,0)],[(1,0),(0,1)],8)}
bams={s:write_bam(f"{d}/{s}.bam",[(rg,s)],S[s]) for s,rg in zip(S,["rg1","rg2","rg3"])}
open(f"{d}/ploidy.txt","w").write("S1\t4\nS2\t2\nS3\t6\n")
open(f"{d}/ped.txt","w").write("S1\t.\t.\nS2\t.\t.\nS3\tS1\tS2\n")
open(f"{d}/tau.txt","w").write("S1\t2\t2\nS2\t1\t1\nS3\t4\t2\n")
ALL=["AFP","ACP","AOP","GP","GL","SNVDP","AFPRIOR","AOPSUM"]
def go(mod,name,args,label):
    try:
        o=run_prog(mod,["mchap",name,*args])
    except Exception as e:
        c=e
        while c.__cause__: c=c.__cause__
        print(label,"CRASH",type(c).__name__,str(c)[:150]); return None
    errs=check(o)
    p=f"{d}/{label}.vcf"; open(p,"w").write(o)
    try:
        with pysam.VariantFile(p) as f: n=sum(1 for _ in f)
        ok=f"pysam ok {n}"
    except Exception as e: ok=f"pysam FAIL {e}"
    print(label,ok,"errs",len(errs)); [print("    ",x) for x in errs[:8]]
    return o
base=["--bam",*bams.values(),"--reference",ref,"--ploidy",f"{d}/ploidy.txt"]
asm_args=base+["--targets",bed,"--variants",vcf,"--mcmc-steps","300","--mcmc-burn","100"]
o=go(assemble,"assemble",asm_args+["--report",*[x for x in ALL if x not in("GP","AFPRIOR")]],"asm_nogp")
for l in (o or "").splitlines():
    if not l.startswith("#"): print("   ",l[:230])
go(assemble,"assemble",asm_args+["--report",*[x for x in ALL if x!="AFPRIOR"]],"asm_gp")
pysam.tabix_index(f"{d}/asm_nogp.vcf",preset="vcf",force=True)
hv=f"{d}/asm_nogp.vcf.gz"
for mod,name,extra in [(call,"call",["--mcmc-steps","300","--mcmc-burn","100"]),(call_exact,"call-exact",[])]:
    o=go(mod,name,base+["--haplotypes",hv,*extra,"--report",*ALL],name+"_all")
    for l in (o or "").splitlines():
        if not l.startswith("#"): print("   ",l[:200])
o=go(call_pedigree,"call-pedigree",["--bam",*bams.values(),"--reference",ref,"--ploidy",f"{d}/ploidy.txt","--haplotypes",hv,"--sample-parents",f"{d}/ped.txt","--gamete-ploidy",f"{d}/tau.txt","--mcmc-steps","300","--mcmc-burn","100","--report",*ALL],"ped_all")
for l in (o or "").splitlines():
    if not l.startswith("#"): print("   ",l[:200])
