import numpy as np, itertools, warnings, math, sys
warnings.simplefilter("ignore")
from mchap.assemble import structural, mutation
from mchap.assemble.likelihood import log_likelihood
from mchap.assemble.prior import log_genotype_prior
from mchap.jitutils import get_haplotype_dosage

class Force:
    def __init__(self): self.probs=None; self.choice=None
    def __call__(self, p):
        self.probs=np.array(p,copy=True)
        return self.choice if self.choice is not None else len(p)-1
def canon(g): return tuple(sorted(map(tuple,g.tolist())))

def states(ploidy,n_alleles):
    haps=list(itertools.product(*[range(a) for a in n_alleles]))
    return [np.array(c,np.int8) for c in itertools.combinations_with_replacement(haps,ploidy)]

def logpi(g,reads,counts,luh,F,temp):
    d=np.empty(len(g),np.int8); get_haplotype_dosage(d,g)
    return (log_likelihood(reads,g,read_counts=counts)+log_genotype_prior(d,luh,F))*temp

def kernel_interval(g,reads,counts,luh,F,temp,interval,step_type):
    f=Force(); structural.random_choice=f
    g0=g.copy(); llk=log_likelihood(reads,g0,read_counts=counts)
    f.choice=None
    structural.interval_step.py_func(g0,reads,llk,luh,F,interval,step_type,temp,counts,None)
    out={}
    if f.probs is None:
        return {canon(g):1.0}
    probs=f.probs.copy()
    for c in range(len(probs)):
        g1=g.copy(); f.choice=c
        llk1,_=structural.interval_step.py_func(g1,reads,llk,luh,F,interval,step_type,temp,counts,None)
        assert abs(llk1-log_likelihood(reads,g1,read_counts=counts))<1e-9
        out[canon(g1)]=out.get(canon(g1),0)+probs[c]
    return out

def kernel_base(g,reads,counts,luh,F,temp,h,j,na):
    f=Force(); mutation.random_choice=f
    llk=log_likelihood(reads,g,read_counts=counts)
    g0=g.copy(); f.choice=int(g[h,j])
    mutation.base_step.py_func(g0,reads,llk,h,j,na,luh,F,temp,counts,None)
    probs=f.probs.copy(); out={}
    for c in range(len(probs)):
        g1=g.copy(); f.choice=c
        mutation.base_step.py_func(g1,reads,llk,h,j,na,luh,F,temp,counts,None)
        out[canon(g1)]=out.get(canon(g1),0)+probs[c]
    return out

import time
CONFIGS=[(2,(2,2)),(3,(2,2)),(4,(2,2)),(3,(2,2,2)),(2,(3,2)),(3,(3,2)),(4,(2,2,2))]
rng=np.random.default_rng(int(sys.argv[1]) if len(sys.argv)>1 else 0)
worst={}
for ploidy,n_alleles in CONFIGS:
    nb=len(n_alleles); S=states(ploidy,n_alleles); idx={canon(s):i for i,s in enumerate(S)}
    nr=4
    reads=rng.dirichlet(np.ones(max(n_alleles)),size=(nr,nb))
    for j,a in enumerate(n_alleles): reads[:,j,a:]=0
    reads[0,0,:]=np.nan
    counts=np.array([1,2,1,3])
    luh=np.log(np.array(n_alleles)).sum()
    for F,temp in [(0.0,1.0),(0.3,1.0),(0.3,0.5),(0.0,0.25)]:
        lp=np.array([logpi(s,reads,counts,luh,F,temp) for s in S]); pi=np.exp(lp-lp.max()); pi/=pi.sum()
        intervals=[(a,b) for a in range(nb) for b in range(a+1,nb+1)]
        for st in (0,1):
          for iv in intervals:
            P=np.zeros((len(S),len(S)))
            ordviol=0
            for i,s in enumerate(S):
                k=kernel_interval(s,reads,counts,luh,F,temp,np.array(iv),st)
                for t,p in k.items(): P[i,idx[t]]+=p
                # order invariance
                for perm in itertools.permutations(range(ploidy)):
                    k2=kernel_interval(s[list(perm)],reads,counts,luh,F,temp,np.array(iv),st)
                    for t in set(k)|set(k2):
                        ordviol=max(ordviol,abs(k.get(t,0)-k2.get(t,0)))
            flow=pi[:,None]*P
            db=np.abs(flow-flow.T).max()/ max(flow.max(),1e-300)
            rows=np.abs(P.sum(1)-1).max()
            key=("interval",st)
            worst[key]=max(worst.get(key,0),db)
            if db>1e-9 or ordviol>1e-9 or rows>1e-9 or P.min()<-1e-12:
                i,j=np.unravel_index(np.argmax(np.abs(flow-flow.T)),flow.shape)
                print("VIOL interval",ploidy,n_alleles,F,temp,st,iv,"db",db,"ord",ordviol,"rows",rows,"min",P.min(), S[i].tolist(),S[j].tolist(),P[i,j],P[j,i],pi[i],pi[j])
        for h in range(ploidy):
          for j in range(nb):
            # base step: state must be treated with ordering: average over which row h picks? use all orderings
            P=np.zeros((len(S),len(S)))
            for i,s in enumerate(S):
                perms=list(itertools.permutations(range(ploidy)))
                for perm in perms:
                    k=kernel_base(s[list(perm)],reads,counts,luh,F,temp,h,j,n_alleles[j])
                    for t,p in k.items(): P[i,idx[t]]+=p/len(perms)
            flow=pi[:,None]*P
            db=np.abs(flow-flow.T).max()/max(flow.max(),1e-300)
            worst["base"]=max(worst.get("base",0),db)
            if db>1e-9: print("VIOL base",ploidy,n_alleles,F,temp,h,j,db)
    print("done",ploidy,n_alleles,len(S),worst,time.time(),flush=True)
