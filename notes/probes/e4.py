import sys, io, warnings, contextlib, traceback
warnings.simplefilter("ignore")
from mchap.application.atomize import atomize_vcf
src="/repo/mchap/tests/test_io/data/simple.output.mixed_depth.assemble.vcf"
lines=open(src).read().splitlines()
hdr=[l for l in lines if l.startswith("#")]
recs=[l for l in lines if not l.startswith("#")]
def run(name, rec_lines):
    p=f"/tmp/exp/{name}.vcf"
    open(p,"w").write("\n".join(hdr+rec_lines)+"\n")
    buf=io.StringIO()
    try:
        with contextlib.redirect_stdout(buf):
            atomize_vcf(p)
        out=[l for l in buf.getvalue().splitlines() if not l.startswith("#")]
        print(name,"OK"); [print("   ",l[:200]) for l in out]
    except Exception as e:
        print(name,"EXC",type(e).__name__,e)
r=recs[0].split("\t")
# (a) no ALT but SNVs present: all samples hom ref
a=r.copy(); a[4]="."; a[7]="AN=12;UAN=1;AC=.;NS=3;MCI=0;DP=159;RCOUNT=240;END=25;NVAR=3;SNVPOS=2,11,18;SNVDP=96,192,192"
a[9:]=["0/0/0/0:7:8:13:20:40:0:0:0.785:0.835:0:8,16,16"]*3
run("noalt",["\t".join(a)])
# (b) monomorphic SNV: only first ALT kept (SNVPOS 2 monomorphic)
b=r.copy(); b[4]="AAAAAAAAAAGAAAAAATAA"; b[7]="AN=12;UAN=2;AC=3;NS=3;MCI=0;DP=159;RCOUNT=240;END=25;NVAR=3;SNVPOS=2,11,18;SNVDP=96,192,192"
b[9:]=["0/0/1/1:7:8:13:20:40:0:0:0.785:0.835:0:8,16,16"]*3
run("mono",["\t".join(b)])
# (c) '.' alleles in GT
c=r.copy(); c[9]="0/0/1/.:7:8:13:20:40:0:0:0.785:0.835:0:8,16,16"
run("dotallele",["\t".join(c)])
run("orig",[recs[0]])
